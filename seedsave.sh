#!/bin/sh
cd "$(dirname "$(readlink -f "$0")")"
S() { SAVE=$1 NEEDS="$4" ./seedcheck.sh $2 $3 2>&1 | head -1 | cut -c1-200; }
S C12-1 C12 /tmp/mut-C12-out/1 "server reuses one response buffer across requests: overlapping requests corrupt each other's responses||overlapping requests for different files (diff with both bases remote, or parallel clients)"
S C12-2 C12 /tmp/mut-C12-out/2 "/sum handler takes the clock from until: remote sum differs from local||explicit -until earlier than now with a window touching an archive's retention boundary"
S C12-3 C12 /tmp/mut-C12-out/3 "remote glob list parsed with strings.Fields: names containing whitespace are split||a matched file or item name containing a space"
S C15-1 C15 /tmp/mut-C15-out/1 "ExpectedFileSize computed in 32 bits: a short file claiming 0x15555556 points is accepted by Open and a raw dump allocates gigabytes||points count whose product with 12 wraps 32 bits"
S C15-2 C15 /tmp/mut-C15-out/2 "Points.TakeFrom bound replaced by int(count) < 0: count*12 wraps 64 bits and makeslice panics in the view-raw client||hostile response with a 64-bit count of 2^63/12 or more"
S C15-3 C15 /tmp/mut-C15-out/3 "aggregation method validation accepts Mix and Percentile: first propagating update panics||aggregation byte damaged from 3 to 7 (one flipped bit) in a file with two or more archives"
S C17-1 C17 /tmp/mut-C17-out/1 "reusable per-archive read buffer stored on the handle: concurrent fetches overwrite each other's bytes||two concurrent fetches of the same archive with different windows on one handle"
S C17-2 C17 /tmp/mut-C17-out/2 "sum workers append results in completion order (under a mutex): header, float sum order and messages depend on the schedule||three or more files with non-integer values, or differing metadata"
S C17-3 C17 /tmp/mut-C17-out/3 "response buffer returned to a sync.Pool while the handler is still writing it||overlapping requests, a slow or large response"
