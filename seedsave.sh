#!/bin/sh
cd "$(dirname "$(readlink -f "$0")")"
S() { SAVE=$1 NEEDS="$4" TARGET=$5 ./seedcheck.sh $2 $3 2>&1 | head -1 | cut -c1-200; }
S C01-r2-1 C03 /tmp/mut2-C01-out/1 "single update exactly one max-retention old is accepted and wipes the newest live value of the last archive (it shares its slot)||single update with age == max retention; acceptance is C03's rule, so the C03 check reports it" C01
S C01-r2-2 C03 /tmp/mut2-C01-out/2 "named-archive batch spills its too-old points into the coarser archives||a stale point in a named-archive batch, then a read of the coarser archive (routing is C03's rule, so the C03 check reports it)" C01
S C01-r2-3 C01 /tmp/mut2-C01-out/3 "batch writes skip NaN-valued points: the older value of the slot survives a later NaN write||value, then NaN for the same interval, then fetch"
S C02-r2-1 C02 /tmp/mut2-C02-out/1 "propagate takes the coarsest archive as the next level: with 4+ levels the third level is never recomputed||layout with four archives"
S C02-r2-2 C02 /tmp/mut2-C02-out/2 "re-sending an identical sample returns before propagateChain: coarser slots changed in between are not recomputed||three-step history (sample, direct coarser write, same sample again)"
S C02-r2-3 C02 /tmp/mut2-C02-out/3 "timesToPropagate returns every interval between the first and last point: gap slots covering no written point are recomputed||sparse batch with a gap of one whole coarse slot"
S C03-r2-1 C03 /tmp/mut2-C03-out/1 "named-archive batch no longer sorted before the suffix partition: in-range points supplied before a stale one are lost||unsorted named-archive batch containing one too-old point"
S C03-r2-2 C03 /tmp/mut2-C03-out/2 "single-update acceptance off by one (age == max retention accepted)||single update with age exactly the max retention"
S C03-r2-3 C03 /tmp/mut2-C03-out/3 "early exit tests the oldest point: one too-old point makes the whole batch vanish||batch containing one point at or beyond the max retention"
S C04-r2-1 C04 /tmp/mut2-C04-out/1 "future short-circuit from >= now: a window starting exactly at now returns no series||from == now"
S C04-r2-2 C04 /tmp/mut2-C04-out/2 "lower bound clamped after alignment: one extra slot when the retention edge is slot-aligned and from lies within one step before it||clock a multiple of the step, from just before the retention edge"
S C04-r2-3 C04 /tmp/mut2-C04-out/3 "negative archive ids below -1 treated as best||archive id -2 or -3"
S C05-r2-1 C05 /tmp/mut2-C05-out/1 "finalizer flushes dropped handles: unsynced pages reach the disk when the collector runs||handle abandoned without Close, then a GC cycle"
S C05-r2-2 C05 /tmp/mut2-C05-out/2 "modified flag set only on success: Sync skips the flush after an update that failed half-way||update that writes archive 0 and then fails while propagating (damaged coarser base interval), then Sync"
S C05-r2-3 C13 /tmp/mut2-C05-out/3 "Open reads the header page before taking the lock: a reader keeps a stale page 0||reader whose Open starts while a writer holds unsynced changes in page 0, multi-page file (a two-handle interleaving: the C13 check reports it, the C05 check has no overlapping observer)" C05
S C06-r2-1 C06 /tmp/mut2-C06-out/1 "validateAggregationMethod as a range check excludes first (id 6)||aggregation method first"
S C06-r2-2 C06 /tmp/mut2-C06-out/2 "archiveUpdateMany skips points that left the retention after the empty-archive bootstrap: slot 0 stays empty, later base has another phase||first batch into an empty archive whose oldest point is less than one step inside the retention edge"
S C06-r2-3 C13 /tmp/mut2-C06-out/3 "every open takes LOCK_SH (os.O_RDONLY == 0): a second writer's stale page 0 wipes the first writer's slots||two overlapping writer sessions (serialisation is C13's rule: the C13 check reports it)" C06
S C08-r2-1 C08 /tmp/mut2-C08-out/1 "copyPointsList returns only the last round's diff: the final Sync is skipped when the coarsest archive has nothing to write||catch-up copy into a stale replica whose coarser archives agree, or -archive k below the last"
S C08-r2-2 C08 /tmp/mut2-C08-out/2 "layout check compares the source with the requested layout instead of the existing destination's||existing destination with equal steps but different point counts and a window inside both retentions"
S C08-r2-3 C08 /tmp/mut2-C08-out/3 "Value.Equal with a 1e-12 relative tolerance: slots differing in the last bits are not copied||destination value differing from the source in the last bits"
S C09-r2-1 C09 /tmp/mut2-C09-out/1 "text-out file not flushed when the command returns an error: the listing is lost exactly when a difference is found||-text-out file and a difference"
S C09-r2-2 C09 /tmp/mut2-C09-out/2 "Value.Equal compares bit patterns: NaN payloads and signed zeros count as differences||stored NaN with another payload, or +0 against -0"
S C09-r2-3 C09 /tmp/mut2-C09-out/3 "ArchiveInfo.Equal drops the point count: layouts differing only in an archive's length compare equal||explicit window inside both retentions"
S C10-r2-1 C10 /tmp/mut2-C10-out/1 "never-written early return before the zero-length adjustment: sum fails with time ranges unalike||a never-written file among the sources and a window inside one step"
S C10-r2-2 C10 /tmp/mut2-C10-out/2 "pattern matching nothing reported with a wrapped error that os.IsNotExist does not recognise||file pattern matching nothing"
S C10-r2-3 C10 /tmp/mut2-C10-out/3 "/sum handler reads now from the until field||remote sum with an explicit until different from now and a window touching the retention edge"
