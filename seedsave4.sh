#!/bin/sh
# round 4: S <name> <check to run> <dir> "<breaks>||<needs>" [<property the change was written against>]
cd "$(dirname "$(readlink -f "$0")")"
S() { SAVE=$1 NEEDS="$4" TARGET=$5 ./seedcheck.sh $2 $3 2>&1 | head -1 | cut -c1-200; }
part=$1
if [ "$part" = a ]; then
S C01-r4-1 C01 /tmp/mut4-C01-out/1 "a named-archive batch is split by age before it is sorted: in-range points after a stale one are lost||unsorted batch for a named archive with a too-old point after in-range points"
S C01-r4-2 C01 /tmp/mut4-C01-out/2 "a batch write skips a slot holding a newer interval||slot holding a point ahead of the clock or a partly expired oldest interval"
S C01-r4-3 C01 /tmp/mut4-C01-out/3 "batch writes walk the ring incrementally with a single wrap: a gap of more than N intervals leaves the archive region||batch with a point ahead of the clock after a point near the archive's end"
S C02-r4-1 C02 /tmp/mut4-C02-out/1 "Truncate in int32 arithmetic used for the next level's interval: third and later archives not recomputed after 2038||clock after 2038, three archives, step not dividing 2^32"
S C02-r4-2 C02 /tmp/mut4-C02-out/2 "sum and average skip a stored NaN (Value.Add)||finer interval holding a written NaN"
S C02-r4-3 C02 /tmp/mut4-C02-out/3 "propagate stops reading the finer archive at the clock||finer values stamped after now (batch ahead of the clock)"
S C03-r4-1 C03 /tmp/mut4-C03-out/1 "fast path: a batch whose oldest and newest point map to one archive by the single-update rule goes there unpartitioned||best batch whose oldest point's age equals a non-last retention"
S C03-r4-2 C03 /tmp/mut4-C03-out/2 "a batch named for archive 0 runs over all archives||named batch for archive 0 with points too old for it"
S C03-r4-3 C03 /tmp/mut4-C03-out/3 "Points.Less sorts zero timestamps last: a batch containing time 0 is dropped whole||batch containing a point with timestamp 0"
S C04-r4-1 C04 /tmp/mut4-C04-out/1 "until == 0 silently means now||window with until exactly 0"
S C04-r4-2 C04 /tmp/mut4-C04-out/2 "Fetch reads the clock twice||clock tick between two statements of Fetch, from on a retention edge"
S C04-r4-3 C04 /tmp/mut4-C04-out/3 "base-interval sanity check in int32: written archives fail after 2038||clock after 2038, step not dividing 2^32"
S C05-r4-1 C05 /tmp/mut4-C05-out/1 "Close idempotent and Sync on a closed handle returns nil||Update, Close, Sync"
S C05-r4-2 C13 /tmp/mut4-C05-out/2 "flock replaced by a POSIX fcntl record lock||two handles in one process / another process" C05
S C05-r4-3 C05 /tmp/mut4-C05-out/3 "Create writes the header to disk itself||synced file created again in place and abandoned before its first Sync"
S C06-r4-1 C06 /tmp/mut4-C06-out/1 "Create pre-allocates with zeros instead of Truncate: cannot shrink||created again in place over a longer file"
S C06-r4-2 C06 /tmp/mut4-C06-out/2 "interval alignment through an int32 Truncate||clock after 2038"
S C06-r4-3 C06 /tmp/mut4-C06-out/3 "a NaN point clears its slot instead of being stored||NaN written onto the base slot, then a later write"
fi
if [ "$part" = b ]; then
S C08-r4-1 C08 /tmp/mut4-C08-out/1 "copy writes with the library clock instead of its own clock value||clock tick between copy's clock read and its write"
S C08-r4-2 C08 /tmp/mut4-C08-out/2 "a NaN point is stored as an empty slot: -copy-nan onto slot 0 loses the base interval||copy -copy-nan with a source hole at the destination's base slot"
S C08-r4-3 C08 /tmp/mut4-C08-out/3 "copyPointsList stops at the first archive with nothing to write||finer archive equal, coarser archive differing"
S C09-r4-1 C09 /tmp/mut4-C09-out/1 "defaulted until stored in the DiffCommand value||same command value executed again later after new points arrived"
S C09-r4-2 C09 /tmp/mut4-C09-out/2 "scratch buffers shared across archives in Diff: the listing of finer archives shows coarser slots||two or more archives differing"
S C09-r4-3 C09 /tmp/mut4-C09-out/3 "remote name list framing: the last matched file is never compared||glob mode with a remote source base"
S C10-r4-1 C10 /tmp/mut4-C10-out/1 "item directories filtered with Lstat: symlinked item directories dropped||item directory that is a symbolic link"
S C10-r4-2 C10 /tmp/mut4-C10-out/2 "Value.String formats with 32-bit precision||sums with more than 7 significant digits in the text output"
S C10-r4-3 C10 /tmp/mut4-C10-out/3 "until default hoisted out of the item loop||several items, no -until, clock crossing a step between items"
S C11-r4-1 C11 /tmp/mut4-C11-out/1 "a never-written archive is laid out from now instead of the first point||past window copied into an absent or empty destination"
S C11-r4-2 C11 /tmp/mut4-C11-out/2 "re-computed difference of coarser archives ignores copyNaN||destination value in a coarser slot where the sum is NaN"
S C11-r4-3 C11 /tmp/mut4-C11-out/3 "sum-copy continues after a failing item and returns nil (shadowed err)||one matched item whose destination has another layout"
S C12-r4-1 C12 /tmp/mut4-C12-out/1 "literal item pattern skips the server||non-existing literal item through a URL"
S C12-r4-2 C12 /tmp/mut4-C12-out/2 "name lists escaped with PathEscape, decoded with QueryUnescape||+ in a name returned by a remote glob"
S C12-r4-3 C12 /tmp/mut4-C12-out/3 "naive .. guard on the server rejects names containing two dots||file or directory name containing .."
S C13-r4-1 C13 /tmp/mut4-C13-out/1 "Create truncates before the lock||path created again with another size while a session holds the file"
S C13-r4-2 C13 /tmp/mut4-C13-out/2 "Open stats before the lock: stale size with fresh header||Open waiting behind a session that creates the path again with a bigger layout"
S C13-r4-3 C13 /tmp/mut4-C13-out/3 "Sync unlocks before fsync||session that syncs twice or pauses between Sync and Close"
fi
if [ "$part" = c ]; then
S C15-r4-1 C15 /tmp/mut4-C15-out/1 "31-bit retention check only on the last archive||forged header whose non-last archive has a retention in [2^31, 2^32)"
S C15-r4-2 C15 /tmp/mut4-C15-out/2 "/ became % in the enough-points check: a ratio of 2^25 accepted, 512 MiB allocated on the first propagating update||header with a huge step ratio"
S C15-r4-3 C15 /tmp/mut4-C15-out/3 "offset-span check moved out of the shared reader: propagate reads unguarded||finer base interval aligned but 2^31 s from the slot being consolidated, then an update"
S C16-r4-1 C16 /tmp/mut4-C16-out/1 "layout check skipped for a newly created destination||copy into an absent destination with -retentions differing in a point count"
S C16-r4-2 C16 /tmp/mut4-C16-out/2 "text-out file opened at the first write: open failure lost when nothing is printed||unopenable -text-out with a command that prints nothing"
S C16-r4-3 C16 /tmp/mut4-C16-out/3 "from > until check moved from FetchFromArchive to Fetch: sum-copy/sum-diff panic||from after until, both inside a written archive"
S C17-r4-1 C17 /tmp/mut4-C17-out/1 "shared NaN run plus in-place sum: later requests see sums instead of NaN||sum whose first file has a never-written archive, then other requests"
S C17-r4-2 C13 /tmp/mut4-C17-out/2 "shadowed err in Open's clean-up: descriptor and lock kept on two failure paths||damaged file opened twice in one process" C17
S C17-r4-3 C17 /tmp/mut4-C17-out/3 "read-slot semaphore of NumCPU slots taken by requests and by sum's workers: the server deadlocks||as many overlapping sums as slots"
S C18-r4-1 C17 /tmp/mut4-C18-out/1 "response buffer shared by /view, /view-raw and /sum handlers||two overlapping remote views" C18
S C18-r4-2 C18 /tmp/mut4-C18-out/2 "header xFilesFactor printed with 64-bit precision||xFilesFactor that is not a dyadic fraction"
S C18-r4-3 C18 /tmp/mut4-C18-out/3 "remote view-raw escapes the file name with PathEscape||+ or & in a file name, remote base"
S C20-r4-1 C20 /tmp/mut4-C20-out/1 "deferred Close overwrites generate's error||report written to an unwritable standard output"
S C20-r4-2 C13 /tmp/mut4-C20-out/2 "no flock when the file is opened with O_EXCL||reader opening the destination while generate fills it" C20
S C20-r4-3 C20 /tmp/mut4-C20-out/3 "highStartTime <= thisUntil changed to <||finer point count equal to the ratio, instant in the last fine step of a coarse step"
fi
