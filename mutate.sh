#!/bin/sh
# usage: mutate.sh <property> <patch-file | -e 'sed-expr' file> ; runs the quick check on a scratch copy of /repo
# (sensitivity testing helper; the scratch copy lives on /dev/shm and is removed afterwards)
set -e
prop=$1; shift
d=$(mktemp -d /dev/shm/repo-mut-XXXXXX)
cp -r /repo/. $d/
rm -rf $d/.git
if [ "$1" = "-e" ]; then
  sed -i -e "$2" $d/$3
  if cmp -s $d/$3 /repo/$3; then echo "mutate: sed changed nothing"; rm -rf $d; exit 3; fi
else
  (cd $d && patch -p1 -s < "$1") || { echo "mutate: patch failed"; rm -rf $d; exit 3; }
fi
set +e
VERIF_NO_EVIDENCE=1 VERIF_REPO=$d "$(dirname "$(readlink -f "$0")")"/check $prop quick
rc=$?
rm -rf $d
echo "mutate: check exit $rc"
exit $rc
