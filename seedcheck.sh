#!/bin/sh
# seedcheck.sh <property> <dir with patch.diff + demo_test.go> [extra check args]
# Confirms a seeded change (applies, demo passes clean / fails mutated, existing suite passes)
# in a scratch worktree and runs the property's quick check against it.
prop=$1; dir=$2
export GOFLAGS=-mod=mod GOPROXY=off GOSUMDB=off
W=$(mktemp -d /dev/shm/seedwt-XXXXXX); rmdir $W
git -C /repo worktree add -q --detach $W HEAD || exit 3
cleanup() { git -C /repo worktree remove --force $W 2>/dev/null; rm -rf $W; }
demo=$(ls $dir/*_test.go 2>/dev/null | head -1)
res_clean=na; res_mut=na
if [ -n "$demo" ]; then
  pkg=$(grep -m1 '^package ' $demo | awk '{print $2}')
  case "$pkg" in
    whispertool|whispertool_test) pd=. ;;
    cmd|cmd_test) pd=cmd ;;
    compattest) pd=internal/compattest ;;
    *) pd=. ;;
  esac
  name=$(grep -o '^func Test[A-Za-z0-9_]*' $demo | head -1 | sed 's/func //')
  cp $demo $W/$pd/zz_seed_demo_test.go
  if (cd $W && go test -vet=off -count=1 -run "^$name\$" ./$pd >/dev/shm/seed-clean.log 2>&1); then res_clean=pass; else res_clean=FAIL; fi
fi
if ! git -C $W apply $dir/patch.diff 2>/dev/shm/seed-apply.log; then echo "SEED $prop $dir: patch does not apply: $(head -2 /dev/shm/seed-apply.log)"; cleanup; exit 3; fi
if [ -n "$demo" ]; then
  if (cd $W && go test -vet=off -count=1 -run "^$name\$" ./$pd >/dev/shm/seed-mut.log 2>&1); then res_mut=PASS; else res_mut=fail; fi
  rm -f $W/$pd/zz_seed_demo_test.go
fi
if [ "$SKIP_SUITE" = 1 ]; then suite=skipped; else
if (cd $W && go test -vet=off -count=1 ./... >/dev/shm/seed-suite.log 2>&1); then suite=pass; else suite=FAIL; fi; fi
VERIF_REPO=$W /verif/check $prop quick > /dev/shm/seed-check.log 2>&1; rc=$?
oracle=$(grep -m1 -o 'oracle=[^ ]*' /dev/shm/seed-check.log)
echo "SEED $prop $(basename $dir): demo-clean=$res_clean demo-mutated=$res_mut suite=$suite check-exit=$rc $oracle"
grep -m2 -A1 '^VIOLATION' /dev/shm/seed-check.log | cut -c1-300
[ $rc = 2 ] && tail -5 /dev/shm/seed-check.log
cleanup
