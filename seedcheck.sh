#!/bin/sh
# seedcheck.sh <property> <dir with patch.diff + demo_test.go> [extra check args]
# Confirms a seeded change (applies, demo passes clean / fails mutated, existing suite passes)
# in a scratch worktree and runs the property's quick check against it.
prop=$1; dir=$2
export GOFLAGS=-mod=mod GOPROXY=off GOSUMDB=off
W=$(mktemp -d /dev/shm/seedwt-XXXXXX); rmdir $W
git -C /repo worktree add -q --detach $W HEAD || exit 3
cleanup() { rm -f /dev/shm/seed-*.$$.log; git -C /repo worktree remove --force $W 2>/dev/null; rm -rf $W; }
demo=$(ls $dir/*_test.go 2>/dev/null | head -1)
res_clean=na; res_mut=na
if [ -n "$demo" ]; then
  pkg=$(grep -m1 '^package ' $demo | awk '{print $2}')
  case "$pkg" in
    whispertool|whispertool_test) pd=. ;;
    cmd|cmd_test) pd=cmd ;;
    compattest) pd=internal/compattest ;;
    *) pd=. ;;
  esac
  name="($(grep -o '^func Test[A-Za-z0-9_]*' $demo | sed 's/func //' | paste -sd'|'))"
  cp $demo $W/$pd/zz_seed_demo_test.go
  if (cd $W && go test -vet=off -count=1 -run "^$name\$" ./$pd >/dev/shm/seed-clean.$$.log 2>&1); then res_clean=pass; else res_clean=FAIL; fi
fi
if ! git -C $W apply $dir/patch.diff 2>/dev/shm/seed-apply.$$.log; then echo "SEED $prop $dir: patch does not apply: $(head -2 /dev/shm/seed-apply.$$.log)"; cleanup; exit 3; fi
if [ -n "$demo" ]; then
  if (cd $W && go test -vet=off -count=1 -run "^$name\$" ./$pd >/dev/shm/seed-mut.$$.log 2>&1); then res_mut=PASS; else res_mut=fail; fi
  rm -f $W/$pd/zz_seed_demo_test.go
fi
if [ "$SKIP_SUITE" = 1 ]; then suite=skipped; else
if (cd $W && go test -vet=off -count=1 ./... >/dev/shm/seed-suite.$$.log 2>&1); then suite=pass; else suite=FAIL; fi; fi
VERIF_NO_EVIDENCE=1 VERIF_REPO=$W "$(dirname "$(readlink -f "$0")")"/check $prop quick > /dev/shm/seed-check.$$.log 2>&1; rc=$?
oracle=$(grep -m1 -o 'oracle=[^ ]*' /dev/shm/seed-check.$$.log)
# the minimised replay must fail because of the change: on the unchanged tree it replays clean
rp=$(grep -m1 -o 'replay=/[^ ]*\.json' /dev/shm/seed-check.$$.log | sed 's/replay=//')
clean=na
if [ -n "$rp" ] && [ -f "$rp" ]; then
  if VERIF_NO_EVIDENCE=1 "$(dirname "$(readlink -f "$0")")"/check replay "$rp" 2>/dev/null | grep -q REPLAY-VIOLATION; then clean=ALSO-FAILS-ON-THE-UNCHANGED-TREE; else clean=clean; fi
fi
echo "SEED $prop $(basename $dir): demo-clean=$res_clean demo-mutated=$res_mut suite=$suite check-exit=$rc $oracle replay-on-unchanged-tree=$clean"
grep -m2 -A1 '^VIOLATION' /dev/shm/seed-check.$$.log | cut -c1-300
[ $rc = 2 ] && tail -5 /dev/shm/seed-check.$$.log
if [ -n "$SAVE" ]; then
  d=/verif/seeded/$SAVE; mkdir -p $d
  cp $dir/patch.diff $d/; [ -n "$demo" ] && cp $demo $d/demo_test.go; [ -f $dir/README.md ] && cp $dir/README.md $d/README.md
  python3 - "$d" "${TARGET:-$prop}" "$res_clean" "$res_mut" "$suite" "$rc" "$oracle" "$NEEDS" <<'PY'
import json,sys
d,prop,clean,mut,suite,rc,oracle,needs=sys.argv[1:9]
json.dump({"property":prop,"breaks":needs.split('||')[0] if needs else "","needs_to_manifest":needs.split('||')[1] if '||' in needs else "",
 "ran":["git worktree of /repo HEAD under /dev/shm","demo on the clean tree: go test -run <TestName> (result: %s)"%clean,"git apply patch.diff; demo again (result: %s)"%mut,
        "full existing suite with the change: go test -vet=off -count=1 ./... (result: %s)"%suite,"VERIF_REPO=<worktree> ./check %s quick (exit %s, %s)"%(oracle.replace('oracle=','').split('.')[0] or prop,rc,oracle)],
 "demo_on_clean_tree":clean,"demo_with_change":mut,"existing_suite_with_change":suite,"check_exit":int(rc),"caught_by":oracle.replace('oracle=','')}, open(d+'/meta.json','w'), indent=1)
PY
fi
cleanup
