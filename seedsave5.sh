#!/bin/sh
# round 5: S <name> <check to run> <dir> "<breaks>||<needs>" [<property the change was written against>]
cd "$(dirname "$(readlink -f "$0")")"
S() { SAVE=$1 NEEDS="$4" TARGET=$5 ./seedcheck.sh $2 $3 2>&1 | head -1 | cut -c1-260; }
part=$1
if [ "$part" = a ]; then
S C01-r5-1 C01 /tmp/mut5-C01-out/1 "batch sort shortcut that is not stable: a newest-first batch is reversed, equal timestamps swap||non-increasing batch with duplicate timestamps"
S C01-r5-2 C01 /tmp/mut5-C01-out/2 "batch writes filtered with p.Time <= now: a point whose interval starts after the clock is dropped silently||batch with a point ahead of the clock"
S C01-r5-3 C01 /tmp/mut5-C01-out/3 "named single update skips a timestamp older than the named archive's retention||UpdatePointForArchive naming a non-last archive with an expired timestamp"
S C02-r5-1 C02 /tmp/mut5-C02-out/1 "xFilesFactor check against int(xff*ratio): truncation stores 2 of 5 at 0.5||xff times ratio fractional"
S C02-r5-2 C02 /tmp/mut5-C02-out/2 "a best-archive batch split over several archives starts the propagation chain only from the finest archive written||one batch spanning archives, three or more levels"
S C02-r5-3 C02 /tmp/mut5-C02-out/3 "timesToPropagate returns the touched intervals in map order||two touched intervals sharing a coarse ring slot (fails about 1 run in 8 outside the simulator)"
S C03-r5-1 C03 /tmp/mut5-C03-out/1 "descending batches reversed instead of stable-sorted: first duplicate wins||newest-first batch with duplicate timestamps"
S C03-r5-2 C03 /tmp/mut5-C03-out/2 "batch clock pushed forward to the newest point||batch with one point ahead of the clock and a point of age retention-1"
S C03-r5-3 C03 /tmp/mut5-C03-out/3 "UpdateMany splits big batches into passes of 4096 points before sorting||more than 4096 points through UpdateMany, not newest-first"
S C04-r5-1 C04 /tmp/mut5-C04-out/1 "fetch fails when the base interval read from the file is later than now||base slot holding a point ahead of the clock"
S C04-r5-2 C04 /tmp/mut5-C04-out/2 "never-written branch counts points from the unaligned window||partial, sub-step or degenerate window on a never-written archive"
S C04-r5-3 C04 /tmp/mut5-C04-out/3 "future-window short-circuit moved ahead of archive id validation||out-of-range id with from after now"
S C05-r5-1 C05 /tmp/mut5-C05-out/1 "Sync calls are coalesced: a Sync arriving while another runs returns nil at once||two goroutines syncing one handle"
S C05-r5-2 C05 /tmp/mut5-C05-out/2 "Create empties an existing file first (Truncate(0))||synced file created again in place and abandoned before its first Sync"
S C05-r5-3 C05 /tmp/mut5-C05-out/3 "Open accepts a file whose tail is missing and Sync then grows it (not caught: the file is not one the library wrote; no listed statement covers it)||externally truncated file"
S C06-r5-1 C06 /tmp/mut5-C06-out/1 "pre-read of a wrapped range runs past the end of the file: Fetch panics on a valid file||last archive, window containing slot 0, multi-page file"
S C06-r5-2 C02 /tmp/mut5-C06-out/2 "xFilesFactor threshold compared in float64||known fraction equal to a factor that is not exact in binary" C06
S C06-r5-3 C02 /tmp/mut5-C06-out/3 "max/min rewritten with math.Max/math.Min: a stored NaN that is not first poisons the aggregate||method max or min with a stored NaN" C06
fi
if [ "$part" = b ]; then
S C08-r5-1 C13 /tmp/mut5-C08-out/1 "Open takes a shared lock||two writers of the destination" C08
S C08-r5-2 C01 /tmp/mut5-C08-out/2 "clearOldPoints blanks only older slots: a point ahead of the clock is read under the instant one retention earlier||source with points dated after the reader's clock" C08
S C08-r5-3 C08 /tmp/mut5-C08-out/3 "-from/-until parsed in the local time zone||explicit window, non-UTC zone, via Parse"
S C09-r5-1 C09 /tmp/mut5-C09-out/1 "listing values formatted with 32-bit precision||values needing more than 24 significant bits"
S C09-r5-2 C09 /tmp/mut5-C09-out/2 "glob run stops at the first missing file||glob mode, a missing destination followed by a differing file"
S C09-r5-3 C09 /tmp/mut5-C09-out/3 "dropped UTC() in ToStdTime: local wall time labelled Z||non-UTC zone"
S C10-r5-1 C10 /tmp/mut5-C10-out/1 "Kahan summation: a non-finite partial sum turns into NaN and restarts||three files, a stored Inf"
S C10-r5-2 C10 /tmp/mut5-C10-out/2 "files read in batches of 64 into reused buffers: the last batch re-adds leftovers||more than 64 files, count not divisible by 64"
S C10-r5-3 C10 /tmp/mut5-C10-out/3 "404 for not-exist plus status check before the empty-body test in the file reader||remote sum whose file pattern matches nothing"
S C11-r5-1 C11 /tmp/mut5-C11-out/1 "NaN point stored as an empty slot: base marker wiped||destination value where the sum is NaN, on the base slot"
S C11-r5-2 C11 /tmp/mut5-C11-out/2 "items processed in parallel with a captured loop variable||two or more matched items"
S C11-r5-3 C11 /tmp/mut5-C11-out/3 "a destination just created is removed when nothing was copied||absent destination, sum NaN over the whole window"
S C12-r5-1 C12 /tmp/mut5-C12-out/1 "server caches glob listings until the base directory's mtime changes||tree change two levels down between two globs"
S C12-r5-2 C12 /tmp/mut5-C12-out/2 "client sorts the remote name list||sibling directories of which one name is a prefix of the others"
S C12-r5-3 C12 /tmp/mut5-C12-out/3 "never-written archive's NaN series mis-sized on the wire||window that is not a whole number of steps on a fresh file"
S C13-r5-1 C13 /tmp/mut5-C13-out/1 "failed Create keeps descriptor and lock (shadowed err)||Create failing after the open"
S C13-r5-2 C13 /tmp/mut5-C13-out/2 "refused lock request swallowed: Open returns a handle without the lock||flock returning ENOLCK"
S C13-r5-3 C13 /tmp/mut5-C13-out/3 "Close returns early when its fsync fails: descriptor and lock stay||fsync returning EIO (disk error) before Close"
fi
if [ "$part" = c ]; then
S C15-r5-1 C15 /tmp/mut5-C15-out/1 "readHeader pre-reads each archive's first page before the size check||valid header, truncated data"
S C15-r5-2 C15 /tmp/mut5-C15-out/2 "length checks dropped in two cooperating decoders||response ending inside from/until/step of a series"
S C15-r5-3 C15 /tmp/mut5-C15-out/3 "no-retentions check moved into NewHeader, forgotten in TakeFrom||archive count 0"
S C16-r5-1 C16 /tmp/mut5-C16-out/1 "never-written archive returns zero values for a zero-length window: diff, sum-diff and sum panic||degenerate window with a never-written file"
S C16-r5-2 C09 /tmp/mut5-C16-out/2 "diff ignores an explicit -dest||explicit destination name, same-named file present in the destination base" C16
S C16-r5-3 C16 /tmp/mut5-C16-out/3 "NumCPU semaphore not released on a failed read||as many unreadable sources as CPUs, more files following"
S C17-r5-1 C17 /tmp/mut5-C17-out/1 "read-only handle reads through the shared file offset||concurrent fetches on a handle opened with O_RDONLY"
S C17-r5-2 C10 /tmp/mut5-C17-out/2 "SetLimit(128) with TryGo: files beyond 128 busy workers are skipped, nil header||more than 128 source files" C17
S C17-r5-3 C17 /tmp/mut5-C17-out/3 "globFilesLocal changes the process working directory||request overlapping a /files request, relative base"
S C18-r5-1 C18 /tmp/mut5-C18-out/1 "view-raw zero-length window adjustment leaks across archives (not caught: the statement does not say what view-raw prints for an empty range)||-from X -until X, two or more archives"
S C18-r5-2 C18 /tmp/mut5-C18-out/2 "Open rejects a file when any archive has a misaligned base interval (not caught: damaged files are C15's domain, which allows an error)||file with one damaged archive"
S C18-r5-3 C18 /tmp/mut5-C18-out/3 "clearOldPoints keeps slots holding a later lap: view shows phantom points||points dated after the viewer's clock"
S C20-r5-1 C16 /tmp/mut5-C20-out/1 "per-archive maximum scaled in int32: rand.Intn panics||large -max with a coarse archive" C20
S C20-r5-2 C20 /tmp/mut5-C20-out/2 "RandMax 0 treated as unset (100)||explicit maximum 0"
S C20-r5-3 C20 /tmp/mut5-C20-out/3 "Create drops the Truncate error: success with a truncated file on a full disk||disk full beyond an offset inside the file"
fi
