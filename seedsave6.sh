#!/bin/sh
# round 6: S <name> <check to run> <dir> "<breaks>||<needs>" [<property the change was written against>]
cd "$(dirname "$(readlink -f "$0")")"
S() { SAVE=$1 NEEDS="$4" TARGET=$5 ./seedcheck.sh $2 $3 2>&1 | head -1 | cut -c1-260; }
part=$1
if [ "$part" = a ]; then
S C01-r6-1 C01 /tmp/mut6-C01-out/1 "batch write re-bases a ring whose base slot is older than the file's retention||slot 0 not rewritten for longer than the whole retention while other slots are live"
S C01-r6-2 C01 /tmp/mut6-C01-out/2 "fetch rejects a base interval later than now||point ahead of the clock in slot 0"
S C01-r6-3 C04 /tmp/mut6-C01-out/3 "named non-last archive with a window older than its ring falls back to the best archive||explicitly named archive, window inside a coarser archive only" C01
S C02-r6-1 C02 /tmp/mut6-C02-out/1 "max/min loops never compare the newest known value||extreme of a coarse interval is its last known value"
S C02-r6-2 C02 /tmp/mut6-C02-out/2 "one-pass aggregator: last is not seeded by the first value||method last, exactly one known finer value"
S C02-r6-3 C02 /tmp/mut6-C02-out/3 "propagate skips a coarse slot that already holds a later lap||earlier sample dated ahead of the clock"
S C03-r6-1 C01 /tmp/mut6-C03-out/1 "a NaN supplied last for a slot no longer wins||duplicate timestamps in one batch with the NaN last" C03
S C03-r6-2 C03 /tmp/mut6-C03-out/2 "unsigned ages: one point ahead of the clock empties the whole batch||batch containing a point at now+1"
S C03-r6-3 C03 /tmp/mut6-C03-out/3 "named-archive batch forgets the default clock (now = 0)||named archive, now passed as 0, a too-old point"
S C04-r6-1 C04 /tmp/mut6-C04-out/1 "fetch alignment through time.Time.Truncate (rounds from year 1)||step that does not divide the offset between year 1 and 1970"
S C04-r6-2 C04 /tmp/mut6-C04-out/2 "window pages pre-read without ring wrap-around: fetch panics on the last archive||window wrapping the ring end, multi-page file"
S C04-r6-3 C04 /tmp/mut6-C04-out/3 "an explicit now ahead of the process clock is replaced by the local clock||caller's clock value ahead of the process clock"
S C05-r6-1 C05 /tmp/mut6-C05-out/1 "page buffer written back after 1 MiB of point writes||about 90 000 point writes through one handle without a Sync"
S C05-r6-2 C13 /tmp/mut6-C05-out/2 "Create truncates before taking the lock||path created again with another size while a handle is live" C05
S C05-r6-3 C16 /tmp/mut6-C05-out/3 "copy re-creates a destination whose header Open rejects, before the copy can still fail||destination with an unknown aggregation method and a failing copy" C05
S C06-r6-1 C03 /tmp/mut6-C06-out/1 "single update accepts a point exactly as old as the max retention||age equal to the max retention" C06
S C06-r6-2 C02 /tmp/mut6-C06-out/2 "consolidation window read in one contiguous read (assumes the point count is a multiple of the ratio)||1s:90s,1m:1h with a wrapped sparse window" C06
S C06-r6-3 C06 /tmp/mut6-C06-out/3 "batches that look like one run of consecutive intervals are written with a single WriteAt||two samples of one interval followed by a later one"
fi
if [ "$part" = b ]; then
S C08-r6-1 C08 /tmp/mut6-C08-out/1 "missing destination created from the source's header instead of the requested one||missing destination, request differing from the source"
S C08-r6-2 C08 /tmp/mut6-C08-out/2 "error-path clean-up deletes a pre-existing blank destination||never-written destination and a reported layout mismatch"
S C08-r6-3 C08 /tmp/mut6-C08-out/3 "diff helper skips archives without a source value, also under -copy-nan||window entirely empty in the source, -copy-nan"
S C09-r6-1 C09 /tmp/mut6-C09-out/1 "glob matches made relative with TrimPrefix||base directory not in clean form"
S C09-r6-2 C13 /tmp/mut6-C09-out/2 "non-blocking flock: a second opener fails instead of waiting||two openers of one file" C09
S C09-r6-3 C09 /tmp/mut6-C09-out/3 "Value.Diff rewritten as Add(-u): NaN ignored in destMinusSrc||slot present on one side only"
S C10-r6-1 C10 /tmp/mut6-C10-out/1 "file pattern matched per directory entry||file pattern with a directory component"
S C10-r6-2 C10 /tmp/mut6-C10-out/2 "shared NaN buffer plus in-place accumulation||first matched file never written"
S C10-r6-3 C10 /tmp/mut6-C10-out/3 "server call site missed in a refactoring: dotted item name used as a directory||remote base and a nested item"
S C11-r6-1 C05 /tmp/mut6-C11-out/1 "Close syncs dirty buffers itself and sum-copy drops its Sync||handle closed without Sync" C11
S C11-r6-2 C11 /tmp/mut6-C11-out/2 "base interval cached in the shared ArchiveInfo backing array||two absent destinations in one run, differently timed sources"
S C11-r6-3 C13 /tmp/mut6-C11-out/3 "Open validates the header before taking the lock||reader queued behind a writer" C11
S C12-r6-1 C12 /tmp/mut6-C12-out/1 "nil series equals only nil: remote absent series are non-nil||-archive N or a window beyond a finer retention, remote source, local destination"
S C12-r6-2 C12 /tmp/mut6-C12-out/2 "5xx answers sent without a body: classified as not-exist||server-side hard error"
S C12-r6-3 C12 /tmp/mut6-C12-out/3 "server rejects from >= until||zero-length window through a URL"
S C13-r6-1 C13 /tmp/mut6-C13-out/1 "Open gives way on an empty file and returns without re-locking||opener getting the lock between a creator's open and lock"
S C13-r6-2 C13 /tmp/mut6-C13-out/2 "Create opens and locks before validating its arguments||Create refused for an invalid layout or xFilesFactor"
S C13-r6-3 C13 /tmp/mut6-C13-out/3 "reading commands open read-only without the lock||view while a writer session is going on"
fi
if [ "$part" = c ]; then
S C15-r6-1 C15 /tmp/mut6-C15-out/1 "update trusts the header's maxRetention field||flipped bit in bytes 4..8, single update aged between the real and the claimed retention"
S C15-r6-2 C15 /tmp/mut6-C15-out/2 "ring end of the last archive taken from the file size||file with trailing bytes, wrapped window of the last archive"
S C15-r6-3 C15 /tmp/mut6-C15-out/3 "time-range guard skips archives that are nil on one side||-archive N against a server answering for every archive"
S C16-r6-1 C16 /tmp/mut6-C16-out/1 "copyPointsList breaks at the first archive with an empty diff||finest archive equal or outside the window"
S C16-r6-2 C16 /tmp/mut6-C16-out/2 "shared checkArchiveID tests > count: view-raw -archive N panics||archive id equal to the archive count"
S C16-r6-3 C16 /tmp/mut6-C16-out/3 "flag.ContinueOnError in main: malformed option values are ignored (not caught: cmd/whispertool/main.go is outside the simulated packages; the commands are driven through Parse and Execute)||malformed option value through the real binary"
S C17-r6-1 C16 /tmp/mut6-C17-out/1 "sum workers wait on a channel the first worker closes only on success: sum hangs when its first file is unreadable||first matched file unreadable, two or more files" C17
S C17-r6-2 C17 /tmp/mut6-C17-out/2 "/view opens the file in a goroutine whose handle is never closed when the client gave up||client closing its connection while the request waits for a lock"
S C17-r6-3 C17 /tmp/mut6-C17-out/3 "unsynchronised sticky corrupt-archive error on the handle||shared handle on a file with one damaged archive"
S C18-r6-1 C12 /tmp/mut6-C18-out/1 "view-raw leaves the file open and locked||two remote view-raw requests for one file" C18
S C18-r6-2 C18 /tmp/mut6-C18-out/2 "header maxRetention derived from the archive list instead of the stored field (not caught: differs only on files whose stored field is inconsistent, which the library never writes)||foreign file with an inconsistent maxRetention field"
S C18-r6-3 C18 /tmp/mut6-C18-out/3 "view-raw extends a sub-step range to the next slot boundary||explicit range inside one step of a coarse archive"
S C20-r6-1 C20 /tmp/mut6-C20-out/1 "index slice clamp off by one: newest coarser slot omits the newest finer point||instant in the last finer slot of a coarser slot"
S C20-r6-2 C20 /tmp/mut6-C20-out/2 "guard t >= now leaves the slot beginning at the generation instant empty||instant aligned to an archive's step"
S C20-r6-3 C20 /tmp/mut6-C20-out/3 "aggregation-method validation by range drops first||generate -agg-method first"
fi
