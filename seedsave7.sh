#!/bin/sh
# round 7 (short round: C05, C12, C13, C17): S <name> <check to run> <dir> "<breaks>||<needs>" [<property the change was written against>]
cd "$(dirname "$(readlink -f "$0")")"
S() { [ -f $3/patch.diff ] || { echo "SEED $1: no patch in $3"; return; }; SAVE=$1 NEEDS="$4" TARGET=$5 ./seedcheck.sh $2 $3 2>&1 | head -1 | cut -c1-260; }
if [ -n "$1" ]; then grep -- "-$1-" seedsave7.list > /dev/shm/ss7.$$; . /dev/shm/ss7.$$; rm -f /dev/shm/ss7.$$; else . ./seedsave7.list; fi
