#!/bin/sh
# runs every registered check of one tier and prints one summary line each
tier=${1:-quick}
cd "$(dirname "$(readlink -f "$0")")"
for p in C01 C02 C03 C04 C05 C06 C08 C09 C10 C11 C12 C13 C15 C16 C17 C18 C20; do
  ./check $p $tier > /dev/shm/runall-$$-$p.log 2>&1; rc=$?
  echo "$p exit=$rc $(grep -c '^VIOLATION' /dev/shm/runall-$$-$p.log) violations; $(grep '^wsimctl: C' /dev/shm/runall-$$-$p.log | tail -1)"
  grep -A1 '^VIOLATION\|KNOWN-FINDING\|infrastructure' /dev/shm/runall-$$-$p.log | cut -c1-300 | head -6
done
