package main

import (
	"fmt"
	"os"
	"wsim/instr"
)

func main() {
	r, err := instr.Instrument(os.Args[1], os.Args[2])
	if err != nil {
		fmt.Println(err)
		os.Exit(2)
	}
	fmt.Println(len(r.Sites), r.OverlayPath)
}
