package main

import (
	"encoding/json"
	"fmt"
	"os"
	"path/filepath"
	"sort"
)

// writeManifest regenerates /verif/MANIFEST.json from the property table.
func writeManifest() int {
	var ids []string
	for id := range props {
		ids = append(ids, id)
	}
	sort.Strings(ids)
	var checks []map[string]interface{}
	for _, id := range ids {
		c := props[id]
		text := c.levelText
		if text == "" {
			text = "seeded search over histories, schedules and fault sequences across many simulated runs against an executable reference model; a clean batch is evidence, not proof"
		}
		if c.level == "fault_enumeration" && c.levelText == "" {
			text = "the fault points of every sampled case are enumerated completely (see rule in the evidence file); the cases themselves are sampled by seed"
		}
		note := c.levelNote
		if note == "" {
			note = "trusted: go1.26.8 and testing/synctest, Linux flock/tmpfs, the reference models of DESIGN.md appendix A, the source instrumenter (the repository's own tests pass on the instrumented overlay with hooks off)"
		}
		checks = append(checks, map[string]interface{}{
			"property_id":         id,
			"quick_cmd":           "./check " + id + " quick",
			"thorough_cmd":        "./check " + id + " thorough",
			"evidence_file":       "/verif/evidence/" + id + ".json",
			"replay_cmd_template": "./check replay {path}",
			"engine":              "wsim",
			"level_claimed":       map[string]string{"category": c.level, "text": text, "design_ref": "DESIGN.md section 7, " + id},
			"level_note":          note,
			"technique":           c.technique,
		})
	}
	na := []map[string]string{}
	for _, n := range notApplicable {
		if _, claimed := props[n[0]]; !claimed {
			na = append(na, map[string]string{"property_id": n[0], "reason": n[1]})
		}
	}
	m := map[string]interface{}{
		"version":   1,
		"setup_cmd": "cd /verif && GOFLAGS=-mod=mod GOPROXY=off GOSUMDB=off GOTOOLCHAIN=local sh -c 'mkdir -p bin && cd sim && go1.26.8 build -o ../bin/wsimctl ./cmd/wsimctl && cd .. && bin/wsimctl warm'",
		"hooks": map[string]interface{}{
			"guard":            "overlay (instrumentation is generated at check time into a scratch directory under /dev/shm and applied with go -overlay; nothing is committed to /repo, so the guard is off in the shipped tree by construction)",
			"enable":           "./check <id> quick|thorough runs the instrumenter (/verif/sim/instr) on /repo's current working tree and builds /verif/sim/engine with go1.26.8 test -c -overlay <scratch>/overlay.json",
			"baseline_off_cmd": "cd /repo && go test -vet=off -count=1 -timeout 25m ./...",
			"source_commits":   []string{},
			"add_only":         true,
		},
		"engines": []map[string]interface{}{{
			"name": "wsim", "path": "/verif/sim", "serves_properties": ids,
			"kind_free_text": "deterministic simulator for whispertool: testing/synctest bubble (simulated clock), seeded scheduler over yield points inserted at every statement, real flock with simulated waiting, simulated process death / handle abandonment / stored-byte and wire corruption, reference models, delta-debugging minimiser, replay files",
		}},
		"checks":         checks,
		"not_applicable": na,
		"notes":          "Findings protocol: /verif/known_findings.json lists repaired defects (fixed: ... entries, suppress nothing) and open findings (KNOWN-FINDING lines). Replay files are written to /verif/replays/. VERIF_SEED, VERIF_REPO (tree under test, default /repo), VERIF_RUNS and VERIF_WORKERS are honoured.",
	}
	b, _ := json.MarshalIndent(m, "", " ")
	if err := os.WriteFile(filepath.Join(verifDir, "MANIFEST.json"), append(b, '\n'), 0o644); err != nil {
		fmt.Fprintln(os.Stderr, err)
		return 2
	}
	fmt.Printf("MANIFEST.json: %d checks, %d not applicable\n", len(checks), len(na))
	return 0
}

var notApplicable = [][2]string{
	{"C07", "pure predicate on an archive list / header bytes: no clock, schedule, fault or history can change its value, so there is nothing for a simulator to own (DESIGN.md section 8)"},
	{"C14", "pure AppendTo/TakeFrom functions on byte slices; the want-larger-buffer protocol is driven by slice length, not by a stream the simulator could fault (DESIGN.md section 8)"},
	{"C19", "pure parse/print functions over 32-bit domains; the property asks for exhaustive enumeration, which is not simulation (DESIGN.md section 8)"},
	{"C08", "not built yet (planned: CLI world simulation, DESIGN.md section 7)"},
	{"C09", "not built yet (planned: CLI world simulation, DESIGN.md section 7)"},
	{"C10", "not built yet (planned: CLI world simulation, DESIGN.md section 7)"},
	{"C11", "not built yet (planned: CLI world simulation, DESIGN.md section 7)"},
	{"C12", "not built yet (planned: simulated wire, DESIGN.md section 7)"},
	{"C15", "not built yet (planned: stored-byte and wire corruption, DESIGN.md section 7)"},
	{"C16", "not built yet (planned: command x environment grid, DESIGN.md section 7)"},
	{"C17", "not built yet (planned: scheduler over shared handle, sum workers and server handlers, DESIGN.md section 7)"},
	{"C18", "not built yet (planned: CLI world simulation, DESIGN.md section 7)"},
	{"C20", "not built yet (planned: CLI world simulation, DESIGN.md section 7)"},
}

// warm builds the engine once against /repo so that later checks hit the
// build cache.
func warm() int {
	b := prepare(true)
	b.clean()
	fmt.Println("engine built (build cache warm)")
	return 0
}
