package main

import (
	"fmt"
	"os"
	"path/filepath"
	"sort"
	"time"
)

// selftestDeterminism runs the same seeds of each property in several fresh
// processes at GOMAXPROCS 1, 4 and 16 and compares the full event logs.
func selftestDeterminism(ids []string) int {
	if len(ids) == 0 {
		for id := range props {
			ids = append(ids, id)
		}
		sort.Strings(ids)
	}
	b := prepare(false)
	defer b.clean()
	bad := 0
	for _, id := range ids {
		var ref []byte
		n := 0
		for _, procs := range []string{"1", "4", "16", "16", "2", "8"} {
			out := filepath.Join(b.dir, "det-"+id+"-"+procs+fmt.Sprint(n))
			os.MkdirAll(out, 0o755)
			os.Setenv("GOMAXPROCS", procs)
			o, err, _ := runEngine(b.bin, 10*time.Minute, "-wsim.prop", id, "-wsim.seed", "7", "-wsim.n", "100", "-wsim.out", out, "-wsim.log",
				"-wsim.sites", filepath.Join(b.dir, "sites.json"), "-wsim.maxfail", "1000")
			_ = err
			_ = o
			lb, rerr := os.ReadFile(filepath.Join(out, "log-0.txt"))
			if rerr != nil {
				fmt.Printf("determinism %s: no log (%v)\n%s\n", id, rerr, tail(o, 10))
				bad++
				break
			}
			if ref == nil {
				ref = lb
			} else if string(ref) != string(lb) {
				fmt.Printf("determinism %s: event logs differ between processes (GOMAXPROCS=%s)\n", id, procs)
				os.WriteFile("/dev/shm/wsim-det-a.txt", ref, 0o644)
				os.WriteFile("/dev/shm/wsim-det-b.txt", lb, 0o644)
				bad++
				break
			}
			n++
		}
		os.Unsetenv("GOMAXPROCS")
		fmt.Printf("determinism %s: %d processes compared, %d log bytes\n", id, n, len(ref))
	}
	if bad > 0 {
		return 2
	}
	return 0
}
