package main

func init() {
	lib := func(rule string) propCfg {
		return propCfg{
			level:     "exploration",
			quick:     tierCfg{runs: 60000, budget: 60},
			thorough:  tierCfg{runs: 3000000, budget: 1500},
			rule:      rule,
			technique: "deterministic simulation: seeded library histories on a simulated clock checked against a reference model",
		}
	}
	c01 := lib("each run is one seeded history (layout class, method, xff, initial clock, 3-40 operations: single/batch writes to explicit archives, clock advances incl. jumps beyond a retention, sync, reopen, abandonment) on one file; after every step all archives are read over the whole retention, random, degenerate, sub-step, over-wide and from=0 windows. A run is non-trivial when a probe fired (wrap-around read, stale lap read as NaN, write before the base interval, ring of 1-2 slots, window spanning more than N intervals, archive crossing a page); distinct = distinct case hash")
	c01.quick = tierCfg{runs: 40000, budget: 60}
	props["C01"] = c01
	props["C02"] = lib("seeded histories on propagation-heavy layouts (edge, four-level, ratio equal to the finer point count) with explicit-archive writes; after every write the raw state of every coarser level is compared with the model's propagation of the observed finer state. Non-trivial: an aggregate was stored or skipped (by xff or zero known values) at some level; distinct = distinct case hash")
	props["C03"] = lib("seeded histories of single updates with ages across every retention boundary and of batches mixing in-range, too-old, boundary and duplicate points routed to the best or a named archive; raw slots of all archives before/after each call are compared with the routing model. Non-trivial: boundary-age update, batch mixing stale and fresh points, batch spanning 3 archives; distinct = distinct case hash")
	props["C04"] = lib("each run is one layout, one clock value and 8-40 queries (boundary x boundary ages around now and every retention edge, random pairs, degenerate, sub-step, from>until, from=0; every archive id in [-3,n+2] and best), each issued against a never-written, a partially written and a fully written file of the layout and compared with the shape model. Non-trivial: a degenerate window on a never-written archive, a window clamped at both ends, or best selecting a coarser archive; distinct = distinct case hash")
	cli := func(rule string) propCfg {
		c := lib(rule)
		c.quick = tierCfg{runs: 20000, budget: 60}
		c.thorough = tierCfg{runs: 2000000, budget: 1500}
		c.technique = "deterministic simulation: CLI command executed in-process on a simulated clock under the seeded scheduler, post-conditions checked by library-level reads at the command's clock value"
		return c
	}
	props["C08"] = cli("each run builds a world (source and destination files with independent sparse contents, NaN holes, coarser archives that are not the aggregate of the finer ones, destinations equal in coarser but not finer slots, fresh/absent destinations, equal or unequal layouts), executes copy (struct or Parse(args); windows default/narrow/past/beyond retention/degenerate; archive all/each; both NaN modes; single file or glob; optional clock tick inside the command), repeats it and runs diff. Non-trivial: values inside the selected window were compared, a destination was created, a layout mismatch was refused; distinct = distinct case hash")
	props["C09"] = cli("each run builds a pair of files (identical copies, one-ulp / signed-zero / dropped-point deviations, independent contents, a missing side, unequal layouts), executes diff (windows, selections, single/glob), parses the listing back and compares verdict and listing with the model difference set; then the swapped and the self diff. Non-trivial: differences listed, identical files, missing side, layout mismatch; distinct = distinct case hash")
	props["C10"] = cli("each run builds 1-3 items of 1-12 files with identical layouts and arbitrary NaN holes (dyadic values), executes sum (item/file patterns incl. patterns matching nothing, one file of another layout, windows, selections, optional clock tick) and compares the parsed output with the slot-wise NaN-skipping sum. Non-trivial: a sum over several files or a single file was compared, an empty match or layout mismatch was classified; distinct = distinct case hash")
	props["C11"] = cli("C10 worlds plus destinations absent / never written / independent / partially equal; sum-copy, then library reads of the destination against the model sum, then sum-diff (must be clean), then a deviation written through the library and sum-diff again (must list exactly the deviating slots). Non-trivial: a sum was stored and compared or a deviation was detected; distinct = distinct case hash")
	props["C18"] = cli("each run builds one file with values needing 17 digits, infinities, NaN, signed zero and holes, executes view or view-raw (selections, windows, header on/off, sort on/off) and compares the parsed output with library fetches / raw slots bitwise; view points are looked up in view-raw. Non-trivial: lines compared; distinct = distinct case hash")
	props["C20"] = cli("each run executes generate for a seeded layout, maximum, fill on/off at an instant aligned or unaligned to each archive's step (optionally onto an existing path) and checks header, emptiness, completeness, value range and that every coarser slot fully covered by retained finer slots equals their sum. Non-trivial: a filled file or an existing destination was checked; distinct = distinct case hash")
	c16 := cli("each run is one cell of the grid {view, view-raw, diff, copy, sum, sum-copy, sum-diff, generate} x {all, each id, -2, n} x {default, past, future, beyond the finest / each archive's retention, degenerate, from>until} x {none, text-out unopenable, text-out /dev/full, source missing, source corrupt, destination parent is a file, destination exists, destination missing, destination header with method 7, last source file with a near-miss layout} x {no text-out, stdout, file}, local and (for read commands) remote, struct and Parse(args), single file or pattern, on a seeded world; a recovered panic, a command that never returns or a success without evidence of the work is a violation (the thorough tier enumerates all 120 960 cells per world). Non-trivial: the cell executed; distinct = distinct case hash; distinct_states = distinct grid cells")
	c16.level = "fault_enumeration"
	c16.quick = tierCfg{runs: 30000, budget: 60}
	c16.thorough = tierCfg{runs: 120960 * 16, budget: 1500} // 16 worlds x the whole enumerated grid
	props["C16"] = c16
	c12 := cli("each run serves a seeded tree through the real handlers of ServerCommand over the simulated wire and executes 2-6 read commands (view, view-raw, sum, diff and copy with a remote source; existing and missing files, patterns matching nothing, every archive selection, windows, clock advances between commands) twice at the same simulated instant, against the directory and against the URL; text output, outcome class and (copy) resulting destination bytes must be identical. In a separate share of runs one response is damaged on the wire (truncated, closed, error status, garbage): the command must fail or be unaffected, and the next fault-free request must give the local answer. Non-trivial: a command pair involving at least one HTTP request was compared; distinct = distinct case hash")
	c12.technique = "deterministic simulation: real net/http client and real server handlers over an in-memory pipe inside a synctest bubble, paired local/remote execution at one simulated instant, wire faults"
	props["C12"] = c12
	c17 := cli("each run is one of three workloads under the seeded scheduler with statement-level preemption: K=2-6 actors fetching arbitrary archives/windows on one shared handle (every result compared with the same fetch executed alone); sum over 2-12 files with its errgroup workers interleaved (output compared with the unpreempted run); K=2-6 clients issuing view / view-raw / sum / diff requests in parallel against the server with handler goroutines interleaved (every output compared with the same command run alone). In addition the same workloads run free-running under the race detector (runtime monitoring, the interleaving is not decided by the seed). Non-trivial: a run in which preemption actually interleaved the actors; distinct = distinct case hash; distinct interleavings = distinct context-switch signatures")
	c17.race = true
	c17.quick = tierCfg{runs: 4000, budget: 60}
	c17.thorough = tierCfg{runs: 400000, budget: 1500}
	c17.technique = "deterministic simulation: seeded scheduler interleaving fetches on a shared handle, sum's workers and HTTP handler goroutines at statement granularity, results compared with sequential execution; plus a free-running -race pass (runtime monitoring) for race freedom itself"
	props["C17"] = c17
	c15 := cli("each run takes one valid file produced by a seeded fill history (or the real response of a remote view / view-raw / sum / diff over the simulated wire) and applies, one after the other, every truncation length (all below 600 bytes, the last 4, 1 in 20 beyond), every 32-bit header field x 13 boundary values (0, 1, 2, 2^31-1, 2^31, 2^32-1, values whose product with 12 wraps 32 bits, ...), for wire bodies also the series/point-list framing fields with 64-bit boundary values, 48 seeded bit flips, extension and zeroing; the damaged object is opened and used (fetch of every archive, raw dump, single and batch update, Sync; or decoded by the real client), also with the damage applied under an open handle. Each operation must return without panic, within a statement budget, having allocated at most 64 KiB + 64 x input bytes; a worker killed by the runtime under its address-space cap is attributed to the journaled case. Non-trivial: a damaged object that still opened / decoded was exercised; distinct = distinct case hash")
	c15.level = "fault_enumeration"
	c15.quick = tierCfg{runs: 600, budget: 60}
	c15.thorough = tierCfg{runs: 60000, budget: 1500}
	c15.technique = "deterministic simulation with fault injection: stored-byte and wire corruption enumerated per sampled object, allocation and statement budgets, address-space cap per worker"
	props["C15"] = c15
	c13 := lib("each run is 2-5 actors (writers doing read-modify-write of a generation stamp over every slot of a multi-page archive, readers, abandoners, openers that fail after the descriptor was obtained) performing up to 14 sessions on one file under the seeded scheduler with statement-level preemption; invariants after every event, final counter, lock-lifetime probes and a porcupine linearizability check of the session history. Non-trivial: lock contention actually occurred (an opener parked in the lock hook while a handle was held) or a failed open was probed; distinct = distinct case hash; distinct interleavings = distinct context-switch signatures")
	c13.quick = tierCfg{runs: 4000, budget: 60}
	c13.thorough = tierCfg{runs: 300000, budget: 1500}
	c13.technique = "deterministic simulation: seeded scheduler over statement-level yield points, real flock with simulated waiting, porcupine linearizability check of recorded session histories"
	props["C13"] = c13
	c05 := lib("seeded histories of writes interleaved with Sync on multi-page layouts; every operation boundary of every history is an abandonment point (file bytes compared with the last synced bytes; history replayed up to the boundary on a fresh file, handle closed without Sync, file re-read). A share of the boundaries drops the handle without Close and runs the garbage collector; a share of the histories damages a coarser archive's base interval on disk behind a freshly opened handle so that a later update fails half-way before the next Sync. In 2 of 15 runs writer and reader sessions overlap under the seeded scheduler (an Open that starts while a writer holds unsynced changes must, once it returns, see exactly a synced state). In 1 of 15 runs a CLI copy / sum-copy into an existing destination is instead killed at the first, the last and one seeded occurrence of every distinct (goroutine, yield site) pair reached by a fault-free twin run (up to 500 process deaths per case), or made to fail by /dev/full or a layout mismatch: every pre-existing file must then hold its pre-command bytes or, once Sync was reached, the bytes the completed command leaves. Non-trivial: abandonment after a sync with later writes, sync with pending writes, slot straddling a page, a command killed before / after Sync began; distinct = distinct case hash")
	c05.level = "fault_enumeration"
	c05.quick = tierCfg{runs: 1500, budget: 60}
	c05.thorough = tierCfg{runs: 100000, budget: 1500}
	props["C05"] = c05
	c06 := lib("seeded histories written by whispertool and mirrored by go-whisper; after every sync the bytes are parsed by an independent format parser and read by both implementations over windows selecting each archive. Non-trivial: a cross-read of a non-degenerate window happened; distinct = distinct case hash")
	c06.quick = tierCfg{runs: 20000, budget: 60}
	c06.thorough = tierCfg{runs: 2000000, budget: 1500}
	props["C06"] = c06
}
