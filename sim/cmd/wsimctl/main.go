// wsimctl is the driver of the whispertool simulator: it instruments the tree
// under test, builds the engine against it, runs seeded simulations in
// parallel worker processes, minimises and re-validates failures, and writes
// the evidence file.
//
//	wsimctl check <id> quick|thorough
//	wsimctl replay <file>
//	wsimctl selftest-determinism [ids...]
//
// Exit status: 0 property held on everything explored, 1 violation (with a
// "VIOLATION property=<id> replay=<path>" line), 2 infrastructure problem.
package main

import (
	"bytes"
	"encoding/json"
	"fmt"
	"os"
	"os/exec"
	"path/filepath"
	"runtime"
	"sort"
	"strconv"
	"strings"
	"sync"
	"time"

	"wsim/instr"
)

// verifDir is the root of the verification tree (VERIF_HOME, default /verif;
// background runs started with `vp run` work from a snapshot elsewhere).
var verifDir = func() string {
	if d := os.Getenv("VERIF_HOME"); d != "" {
		return d
	}
	return "/verif"
}()

type tierCfg struct {
	runs   int     // total runs over all workers
	budget float64 // wall seconds for the exploration phase
}

type propCfg struct {
	level     string
	quick     tierCfg
	thorough  tierCfg
	rule      string
	technique string
	race      bool
	levelText string
	levelNote string
}

var props = map[string]propCfg{}

func die(format string, args ...interface{}) {
	fmt.Fprintf(os.Stderr, "wsimctl: "+format+"\n", args...)
	os.Exit(2)
}

func envInt(name string, def uint64) uint64 {
	if s := os.Getenv(name); s != "" {
		if v, err := strconv.ParseUint(s, 10, 64); err == nil {
			return v
		}
	}
	return def
}

func repoDir() string {
	if r := os.Getenv("VERIF_REPO"); r != "" {
		return r
	}
	return "/repo"
}

func goEnv() []string {
	env := os.Environ()
	env = append(env, "GOFLAGS=-mod=mod", "GOPROXY=off", "GOSUMDB=off", "GOTOOLCHAIN=local", "CGO_ENABLED=1")
	return env
}

type build struct {
	dir     string
	bin     string
	binRace string
	sites   []instr.Site
}

// prepare instruments repo and builds the engine test binary.
func prepare(race bool) *build {
	repo := repoDir()
	dir, err := os.MkdirTemp("/dev/shm", "wsim-build-")
	if err != nil {
		die("scratch dir: %v", err)
	}
	res, err := instr.Instrument(repo, dir)
	if err != nil {
		os.RemoveAll(dir)
		fmt.Fprintf(os.Stderr, "wsimctl: cannot instrument %s: %v\n", repo, err)
		os.Exit(2)
	}
	// module file with the replace pointing at the tree under test
	simDir := filepath.Join(verifDir, "sim")
	gomod, err := os.ReadFile(filepath.Join(simDir, "go.mod"))
	if err != nil {
		die("%v", err)
	}
	gomod = bytes.Replace(gomod, []byte("=> /repo"), []byte("=> "+repo), 1)
	os.WriteFile(filepath.Join(dir, "go.mod"), gomod, 0o644)
	gosum, _ := os.ReadFile(filepath.Join(simDir, "go.sum"))
	os.WriteFile(filepath.Join(dir, "go.sum"), gosum, 0o644)
	b := &build{dir: dir, sites: res.Sites}
	b.bin = filepath.Join(dir, "engine.test")
	b.compile(b.bin, false)
	if race {
		b.binRace = filepath.Join(dir, "engine-race.test")
		b.compile(b.binRace, true)
	}
	return b
}

func (b *build) compile(out string, race bool) {
	args := []string{"test", "-c", "-o", out, "-overlay", filepath.Join(b.dir, "overlay.json"), "-modfile", filepath.Join(b.dir, "go.mod")}
	if race {
		args = append(args, "-race")
	}
	args = append(args, "./engine")
	cmd := exec.Command("go1.26.8", args...)
	cmd.Dir = filepath.Join(verifDir, "sim")
	cmd.Env = goEnv()
	outb, err := cmd.CombinedOutput()
	if err != nil {
		fmt.Fprintf(os.Stderr, "wsimctl: cannot build the engine against %s (exit 2, not a verdict):\n%s\n", repoDir(), outb)
		b.clean()
		os.Exit(2)
	}
}

func (b *build) clean() {
	if os.Getenv("VERIF_KEEP") != "" {
		fmt.Fprintf(os.Stderr, "wsimctl: keeping %s\n", b.dir)
		return
	}
	os.RemoveAll(b.dir)
	// run directories left behind by killed workers of this driver
	pidMu.Lock()
	defer pidMu.Unlock()
	for _, pid := range workerPids {
		if m, _ := filepath.Glob(fmt.Sprintf("/dev/shm/wsim-%d-*", pid)); len(m) > 0 {
			for _, d := range m {
				os.RemoveAll(d)
			}
		}
	}
}

var (
	pidMu      sync.Mutex
	workerPids []int
)

type workerStats struct {
	Runs        int               `json:"runs"`
	Ops         int64             `json:"ops"`
	SimSeconds  int64             `json:"sim_seconds"`
	Faults      map[string]int64  `json:"faults"`
	Probes      map[string]int64  `json:"probes"`
	Yields      int64             `json:"yields"`
	Decisions   int64             `json:"decisions"`
	Skipped     map[string]int64  `json:"skipped"`
	Samples     []json.RawMessage `json:"samples"`
	StateHashes []uint64          `json:"state_hashes"`
	InterHashes []uint64          `json:"inter_hashes"`
	NontrHashes []uint64          `json:"nontr_hashes"`
	SiteHits    map[string]int64  `json:"site_hits"`
	Known       map[string]int64  `json:"known"`
	KnownSample map[string]string `json:"known_sample"`
	WallS       float64           `json:"wall_s"`
}

type violation struct {
	Oracle  string `json:"oracle"`
	Message string `json:"message"`
	AtOp    int    `json:"at_op"`
}

type trace struct {
	V         int             `json:"v"`
	Property  string          `json:"property"`
	Sim       string          `json:"sim"`
	Seed      uint64          `json:"seed"`
	Index     int             `json:"index"`
	Case      json.RawMessage `json:"case"`
	Sched     json.RawMessage `json:"sched,omitempty"`
	Violation *violation      `json:"violation,omitempty"`
}

func runEngine(bin string, timeout time.Duration, args ...string) (string, error, bool) {
	cmd := exec.Command(bin, append([]string{"-test.run", "TestWsimMain", "-test.timeout", "0"}, args...)...)
	cmd.Dir = filepath.Dir(bin)
	var out bytes.Buffer
	cmd.Stdout = &out
	cmd.Stderr = &out
	if err := cmd.Start(); err != nil {
		return "", err, false
	}
	pidMu.Lock()
	workerPids = append(workerPids, cmd.Process.Pid)
	pidMu.Unlock()
	done := make(chan error, 1)
	go func() { done <- cmd.Wait() }()
	select {
	case err := <-done:
		return out.String(), err, false
	case <-time.After(timeout):
		cmd.Process.Kill()
		<-done
		return out.String(), fmt.Errorf("timeout after %v", timeout), true
	}
}

func nworkers() int {
	n := runtime.NumCPU()
	if n > 16 {
		n = 16
	}
	if v := envInt("VERIF_WORKERS", 0); v > 0 {
		n = int(v)
	}
	return n
}

func check(id, tier string) int {
	cfg, ok := props[id]
	if !ok {
		die("unknown property %s", id)
	}
	t0 := time.Now()
	seed := envInt("VERIF_SEED", 1)
	tc := cfg.quick
	if tier == "thorough" {
		tc = cfg.thorough
	}
	if v := envInt("VERIF_RUNS", 0); v > 0 {
		tc.runs = int(v)
	}
	fmt.Printf("wsimctl: property=%s tier=%s VERIF_SEED=%d repo=%s\n", id, tier, seed, repoDir())
	b := prepare(cfg.race)
	defer b.clean()
	outDir := filepath.Join(b.dir, "out")
	os.MkdirAll(outDir, 0o755)

	status := 0
	crossViol := 0
	crossOK := false
	raceHung := false
	// 1. stored findings of this property are replayed first
	known := loadKnown()
	var knownLines []string
	for _, k := range known {
		if k.Property != id || k.Status != "open" || k.Replay == "" {
			continue
		}
		out, _, _ := runEngine(b.bin, 5*time.Minute, "-wsim.trace", filepath.Join(verifDir, k.Replay), "-wsim.sites", filepath.Join(b.dir, "sites.json"))
		if strings.Contains(out, "REPLAY-VIOLATION") && (k.Oracle == "" || strings.Contains(out, "oracle="+k.Oracle+":")) {
			knownLines = append(knownLines, fmt.Sprintf("KNOWN-FINDING: property=%s %s", id, k.What))
		}
	}

	// 2. exploration
	W := nworkers()
	per := (tc.runs + W - 1) / W
	var wg sync.WaitGroup
	infra := make([]string, W)
	outs := make([]string, W)
	died := make([]bool, W)
	for w := 0; w < W; w++ {
		wg.Add(1)
		go func(w int) {
			defer wg.Done()
			bin := b.bin
			from, n, wid := w, per, w
		again:
			args := []string{"-wsim.prop", id, "-wsim.tier", tier, "-wsim.seed", fmt.Sprint(seed),
				"-wsim.from", fmt.Sprint(from), "-wsim.stride", fmt.Sprint(W), "-wsim.n", fmt.Sprint(n),
				"-wsim.out", outDir, "-wsim.worker", fmt.Sprint(wid), "-wsim.budget", fmt.Sprint(tc.budget),
				"-wsim.sites", filepath.Join(b.dir, "sites.json")}
			out, err, timedOut := runEngine(bin, time.Duration(tc.budget*2+120)*time.Second, args...)
			outs[w] += out
			if err == nil && !timedOut {
				// a worker that met a deadlocked run stops there (goroutines blocked
				// for good stay behind in its process): the rest of its share runs
				// in a new process
				var st struct {
					ResumeAt int `json:"resume_at"`
				}
				if sb, rerr := os.ReadFile(filepath.Join(outDir, fmt.Sprintf("stats-%d.json", wid))); rerr == nil && json.Unmarshal(sb, &st) == nil && st.ResumeAt > 0 && st.ResumeAt < n && wid < 400000 {
					from, n, wid = from+st.ResumeAt*W, n-st.ResumeAt, wid+1000
					goto again
				}
			}
			if timedOut {
				infra[w] = fmt.Sprintf("worker %d exceeded its watchdog", w)
			} else if err != nil && !strings.Contains(out, "HARNESS-PANIC") && workerDied(out, err) {
				// the process was killed by the runtime or the kernel while
				// running the journaled case: attribute it to that case
				jb, jerr := os.ReadFile(filepath.Join(outDir, fmt.Sprintf("journal-%d.json", wid)))
				var tr trace
				if jerr != nil || json.Unmarshal(jb, &tr) != nil {
					infra[w] = fmt.Sprintf("worker %d died without a journal: %v\n%s", w, err, tail(out, 20))
					return
				}
				tr.Violation = &violation{Oracle: id + ".process-died", Message: "the worker process died while running this case: " + deathReason(out, err)}
				fb, _ := json.MarshalIndent(tr, "", " ")
				os.WriteFile(filepath.Join(outDir, fmt.Sprintf("fail-%s-%d.json", id, tr.Index)), fb, 0o644)
				died[w] = true
			} else if err != nil && !strings.Contains(out, "FAIL prop=") {
				infra[w] = fmt.Sprintf("worker %d: %v\n%s", w, err, tail(out, 40))
			} else if _, serr := os.Stat(filepath.Join(outDir, fmt.Sprintf("stats-%d.json", wid))); serr != nil && !died[w] {
				infra[w] = fmt.Sprintf("worker %d wrote no statistics: %v\n%s", w, err, tail(out, 40))
			}
		}(w)
	}
	wg.Wait()
	if id == "C13" {
		// deterministic cross-process probe (two real processes, real kernel lock)
		out, _, _ := runEngine(b.bin, 3*time.Minute, "-wsim.procprobe")
		if i := strings.Index(out, "PROCPROBE-VIOLATION"); i >= 0 {
			p := filepath.Join(verifDir, "replays", fmt.Sprintf("C13-procprobe-%d.json", seed))
			os.MkdirAll(filepath.Dir(p), 0o755)
			msg := strings.SplitN(out[i:], "\n", 2)[0]
			pb, _ := json.MarshalIndent(map[string]interface{}{"v": 1, "property": "C13", "sim": "procprobe", "violation": map[string]string{"oracle": "C13.cross-process", "message": msg}}, "", " ")
			os.WriteFile(p, pb, 0o644)
			fmt.Printf("VIOLATION property=C13 replay=%s\n  oracle=C13.cross-process: %s\n", p, msg)
			status = 1
			crossViol = 1
		} else if strings.Contains(out, "PROCPROBE-OK") {
			crossOK = true
		}
	}
	if cfg.race {
		// free-running workload under the race detector (runtime monitoring part)
		// the race detector's own memory grows with every goroutine it has ever
		// seen: the free-running runs are spread over several processes
		chunks, per := 1, 200
		if tier == "thorough" {
			chunks, per = 10, 2000
		}
		var out string
		var err error
		timedOut := false
		for ch := 0; ch < chunks && err == nil && !timedOut && !strings.Contains(out, "DATA RACE"); ch++ {
			args := []string{"-wsim.prop", id, "-wsim.tier", tier, "-wsim.seed", fmt.Sprint(seed), "-wsim.race", "-wsim.out", outDir, "-wsim.budget", fmt.Sprint(tc.budget / float64(chunks)),
				"-wsim.from", fmt.Sprint(ch * per), "-wsim.n", fmt.Sprint(per), "-wsim.sites", filepath.Join(b.dir, "sites.json")}
			var o string
			o, err, timedOut = runEngine(b.binRace, time.Duration(tc.budget*2/float64(chunks)+300)*time.Second, args...)
			out += o
		}
		if timedOut {
			// a hang of the free-running pass is judged after the deterministic
			// part: if that part reports a violation (e.g. the deadlock itself),
			// the violation is the verdict; otherwise the hang is exit 2
			raceHung = true
		} else if strings.Contains(out, "DATA RACE") {
			p := filepath.Join(verifDir, "replays", fmt.Sprintf("%s-race-%d.txt", id, seed))
			os.MkdirAll(filepath.Dir(p), 0o755)
			os.WriteFile(p, []byte(out), 0o644)
			fmt.Printf("VIOLATION property=%s replay=%s\n", id, p)
			fmt.Println(tail(out, 60))
			status = 1
		} else if err != nil {
			infra = append(infra, fmt.Sprintf("race worker: %v\n%s", err, tail(out, 40)))
		}
	}
	for _, m := range infra {
		if m != "" {
			fmt.Fprintf(os.Stderr, "wsimctl: infrastructure problem (exit 2, not a verdict): %s\n", m)
			return 2
		}
	}

	// 3. aggregate statistics
	agg := &workerStats{Faults: map[string]int64{}, Probes: map[string]int64{}, Skipped: map[string]int64{}, SiteHits: map[string]int64{}, Known: map[string]int64{}, KnownSample: map[string]string{}}
	states, inter, nontr := map[uint64]bool{}, map[uint64]bool{}, map[uint64]bool{}
	maxWall := 0.0
	statFiles, _ := filepath.Glob(filepath.Join(outDir, "stats-*.json"))
	sort.Strings(statFiles)
	for _, f := range statFiles {
		var ws workerStats
		bb, _ := os.ReadFile(f)
		if json.Unmarshal(bb, &ws) != nil {
			continue
		}
		agg.Runs += ws.Runs
		agg.Ops += ws.Ops
		agg.SimSeconds += ws.SimSeconds
		agg.Yields += ws.Yields
		agg.Decisions += ws.Decisions
		for k, v := range ws.Faults {
			agg.Faults[k] += v
		}
		for k, v := range ws.Probes {
			agg.Probes[k] += v
		}
		for k, v := range ws.Skipped {
			agg.Skipped[k] += v
		}
		for k, v := range ws.SiteHits {
			agg.SiteHits[k] += v
		}
		for k, v := range ws.Known {
			agg.Known[k] += v
		}
		for k, v := range ws.KnownSample {
			if _, ok := agg.KnownSample[k]; !ok {
				agg.KnownSample[k] = v
			}
		}
		for _, h := range ws.StateHashes {
			states[h] = true
		}
		for _, h := range ws.InterHashes {
			inter[h] = true
		}
		for _, h := range ws.NontrHashes {
			nontr[h] = true
		}
		if len(agg.Samples) < 3 {
			agg.Samples = append(agg.Samples, ws.Samples...)
		}
		if ws.WallS > maxWall {
			maxWall = ws.WallS
		}
	}
	if pre, _ := filepath.Glob(filepath.Join(outDir, "fail-*.json")); agg.Runs == 0 && len(pre) == 0 {
		fmt.Fprintln(os.Stderr, "wsimctl: no run was executed (exit 2)")
		return 2
	} else if agg.Runs == 0 {
		agg.Runs = len(pre) // every worker died on its first cases
	}

	// 4. failures: minimise, re-validate in a fresh process, report
	fails, _ := filepath.Glob(filepath.Join(outDir, "fail-*.json"))
	sort.Strings(fails)
	nviol := 0
	reported := map[string]bool{}
	var norepro []string
	for _, f := range fails {
		if nviol >= 3 {
			break
		}
		var tr trace
		bb, _ := os.ReadFile(f)
		if json.Unmarshal(bb, &tr) != nil || tr.Violation == nil {
			continue
		}
		if reported[tr.Violation.Oracle] && nviol >= 1 {
			continue
		}
		final := f
		if strings.HasSuffix(tr.Violation.Oracle, ".process-died") {
			// re-validate in a fresh process: it must die again
			rout, rerr, _ := runEngine(b.bin, 4*time.Minute, "-wsim.trace", f, "-wsim.sites", filepath.Join(b.dir, "sites.json"))
			if rerr == nil || !workerDied(rout, rerr) {
				if strings.Contains(rout, "REPLAY-VIOLATION") {
					// it fails in an ordinary way when run alone: report that
				} else {
					fmt.Fprintf(os.Stderr, "wsimctl: a worker died while running case %d but the case alone neither dies nor fails (exit 2, not a verdict)\n%s\n", tr.Index, tail(rout, 10))
					return 2
				}
			}
			os.MkdirAll(filepath.Join(verifDir, "replays"), 0o755)
			dst := filepath.Join(verifDir, "replays", fmt.Sprintf("%s-%d-%d.json", id, seed, tr.Index))
			fb, _ := os.ReadFile(f)
			os.WriteFile(dst, fb, 0o644)
			fmt.Printf("VIOLATION property=%s replay=%s\n", id, dst)
			fmt.Printf("  oracle=%s: %s\n", tr.Violation.Oracle, tr.Violation.Message)
			reported[tr.Violation.Oracle] = true
			nviol++
			status = 1
			continue
		}
		out, _, _ := runEngine(b.bin, 4*time.Minute, "-wsim.minimise", f, "-wsim.sites", filepath.Join(b.dir, "sites.json"))
		if strings.Contains(out, "MINIMISED") {
			final = f + ".min"
		} else if strings.Contains(out, "MINIMISE-NOREPRO") {
			// a failure that depends on what earlier runs left behind in the worker
			// process (or on harness nondeterminism) is not a verdict; it is set
			// aside, and decides the exit status only if nothing reproducible was found
			norepro = append(norepro, fmt.Sprintf("failing run %s does not reproduce when re-executed\n%s", filepath.Base(f), tail(out, 20)))
			continue
		}
		// fresh-process validation of the replay file
		rout, _, _ := runEngine(b.bin, 4*time.Minute, "-wsim.trace", final, "-wsim.sites", filepath.Join(b.dir, "sites.json"))
		if !strings.Contains(rout, "REPLAY-VIOLATION") {
			// fall back to the unminimised trace
			final = f
			rout, _, _ = runEngine(b.bin, 4*time.Minute, "-wsim.trace", final, "-wsim.sites", filepath.Join(b.dir, "sites.json"))
			if !strings.Contains(rout, "REPLAY-VIOLATION") {
				norepro = append(norepro, fmt.Sprintf("failing run %s does not reproduce in a fresh process\n%s", filepath.Base(f), tail(rout, 20)))
				continue
			}
		}
		os.MkdirAll(filepath.Join(verifDir, "replays"), 0o755)
		dst := filepath.Join(verifDir, "replays", fmt.Sprintf("%s-%d-%d.json", id, seed, tr.Index))
		fb, _ := os.ReadFile(final)
		os.WriteFile(dst, fb, 0o644)
		var ft trace
		json.Unmarshal(fb, &ft)
		fmt.Printf("VIOLATION property=%s replay=%s\n", id, dst)
		if ft.Violation != nil {
			fmt.Printf("  oracle=%s at_op=%d: %s\n", ft.Violation.Oracle, ft.Violation.AtOp, ft.Violation.Message)
		}
		reported[tr.Violation.Oracle] = true
		nviol++
		status = 1
	}
	for _, m := range norepro {
		fmt.Fprintf(os.Stderr, "wsimctl: set aside (not a verdict): %s\n", m)
	}
	if len(norepro) > 0 && nviol == 0 && status == 0 {
		fmt.Fprintln(os.Stderr, "wsimctl: infrastructure problem (exit 2, not a verdict): a failing run did not reproduce and nothing reproducible was found")
		return 2
	}
	if raceHung && nviol == 0 && status == 0 {
		fmt.Fprintln(os.Stderr, "wsimctl: infrastructure problem (exit 2, not a verdict): the free-running race pass exceeded its watchdog and the deterministic part found nothing")
		return 2
	}
	for _, l := range knownLines {
		fmt.Println(l)
	}
	for _, k := range sortedKeys(agg.Known) {
		line := fmt.Sprintf("KNOWN-FINDING: property=%s %s", id, knownWhat(known, k))
		dup := false
		for _, l := range knownLines {
			if l == line {
				dup = true
			}
		}
		if !dup {
			fmt.Println(line)
		}
		fmt.Printf("  (%d generated cases matched this recorded finding; sample: %s)\n", agg.Known[k], agg.KnownSample[k])
	}

	// 5. evidence
	wall := time.Since(t0).Seconds()
	if crossOK {
		agg.Probes["cross-process-probe-ok"] = 1
	}
	_ = crossViol
	writeEvidence(id, tier, seed, cfg, agg, len(states), len(inter), len(nontr), nviol+boolInt(status == 1 && nviol == 0), wall, maxWall, b.sites)
	fmt.Printf("wsimctl: %s %s: %d runs, %d ops, %d violations, %.1fs\n", id, tier, agg.Runs, agg.Ops, nviol, wall)
	return status
}

// workerDied reports whether a worker's exit looks like a death by the
// runtime or the kernel rather than an ordinary failure.
func workerDied(out string, err error) bool {
	return strings.Contains(err.Error(), "signal:") || strings.Contains(out, "fatal error:") || strings.Contains(out, "out of memory") || strings.Contains(out, "goroutine stack exceeds")
}

func deathReason(out string, err error) string {
	for _, l := range strings.Split(out, "\n") {
		if strings.Contains(l, "fatal error:") || strings.Contains(l, "out of memory") || strings.Contains(l, "cannot allocate") {
			return strings.TrimSpace(l)
		}
	}
	return err.Error()
}

func boolInt(b bool) int {
	if b {
		return 1
	}
	return 0
}

func tail(s string, n int) string {
	lines := strings.Split(strings.TrimRight(s, "\n"), "\n")
	if len(lines) > n {
		lines = lines[len(lines)-n:]
	}
	return strings.Join(lines, "\n")
}

func sortedKeys(m map[string]int64) []string {
	ks := make([]string, 0, len(m))
	for k := range m {
		ks = append(ks, k)
	}
	sort.Strings(ks)
	return ks
}

type knownEntry struct {
	Status   string `json:"status"`
	Property string `json:"property"`
	Name     string `json:"name,omitempty"`
	Commit   string `json:"commit,omitempty"`
	Oracle   string `json:"oracle,omitempty"`
	What     string `json:"what"`
	Replay   string `json:"replay,omitempty"`
}

func loadKnown() []knownEntry {
	b, err := os.ReadFile(filepath.Join(verifDir, "known_findings.json"))
	if err != nil {
		return nil
	}
	var ks []knownEntry
	if err := json.Unmarshal(b, &ks); err != nil {
		die("known_findings.json: %v", err)
	}
	return ks
}

func knownWhat(ks []knownEntry, name string) string {
	for _, k := range ks {
		if k.Name == name {
			return k.What
		}
	}
	return name
}

func writeEvidence(id, tier string, seed uint64, cfg propCfg, agg *workerStats, states, inter, nontr, nviol int, wall, exploreWall float64, sites []instr.Site) {
	// probe hit counts for anchored functions: aggregate site hits per function
	perFunc := map[string]int64{}
	covered := 0
	for _, s := range sites {
		if n := agg.SiteHits[fmt.Sprint(s.ID)]; n > 0 {
			perFunc[s.File+":"+s.Func] += n
			covered++
		}
	}
	samples := []interface{}{}
	for _, s := range agg.Samples {
		if len(samples) >= 3 {
			break
		}
		var v interface{}
		if json.Unmarshal(s, &v) == nil {
			samples = append(samples, v)
		}
	}
	if len(samples) == 0 {
		samples = append(samples, "no non-trivial sample was recorded in this run")
	}
	perHour := 0.0
	if exploreWall > 0 {
		perHour = float64(agg.Runs) / exploreWall * 3600
	}
	cov := map[string]interface{}{
		"evaluations":            agg.Runs,
		"distinct_nontrivial":    nontr,
		"rule":                   cfg.rule,
		"samples":                samples,
		"operations":             agg.Ops,
		"simulated_seconds":      agg.SimSeconds,
		"runs_per_hour":          int64(perHour),
		"faults_fired":           agg.Faults,
		"probes":                 agg.Probes,
		"not_judged":             agg.Skipped,
		"distinct_states":        states,
		"distinct_interleavings": inter,
		"yield_points_passed":    agg.Yields,
		"scheduling_decisions":   agg.Decisions,
		"yield_sites_total":      len(sites),
		"yield_sites_reached":    covered,
		"known_findings_matched": agg.Known,
		"seeds":                  fmt.Sprintf("VERIF_SEED=%d, run i uses splitmix64(VERIF_SEED, property, i), i in [0,%d)", seed, agg.Runs),
		"components": map[string]string{
			"whispertool library and cmd package": "real code (instrumented overlay of the tree under test)",
			"clock":                               "simulated (testing/synctest bubble)",
			"scheduler":                           "simulated (seeded, yield points at every statement)",
			"disk":                                "real files on tmpfs; crashes and corruption simulated",
			"flock":                               "real kernel lock, simulated waiting",
			"network":                             "real net/http client and server over an in-memory pipe",
			"filebuffer":                          "real code, uninstrumented (outside /repo)",
		},
		"exhaustive": false,
	}
	ev := map[string]interface{}{
		"property_id": id,
		"tier":        tier,
		"seed":        seed,
		"level":       cfg.level,
		"coverage":    cov,
		"assumptions": []string{
			"Go toolchain go1.26.8 and testing/synctest semantics",
			"Linux flock/tmpfs semantics",
			"reference models in /verif/sim/model (DESIGN.md appendix A)",
			"sampling, not enumeration: a clean batch is evidence, not proof",
		},
		"wall_s":     wall,
		"violations": nviol,
	}
	if os.Getenv("VERIF_NO_EVIDENCE") != "" {
		return // sensitivity runs against scratch copies must not overwrite the evidence
	}
	os.MkdirAll(filepath.Join(verifDir, "evidence"), 0o755)
	bb, _ := json.MarshalIndent(ev, "", " ")
	if err := os.WriteFile(filepath.Join(verifDir, "evidence", id+".json"), bb, 0o644); err != nil {
		die("evidence: %v", err)
	}
}

func replay(path string) int {
	bb, err := os.ReadFile(path)
	if err != nil {
		die("%v", err)
	}
	if strings.HasSuffix(path, ".txt") {
		fmt.Println("this replay file is a race-detector report (runtime monitoring part of C17); re-run the check to reproduce")
		return 0
	}
	var tr trace
	if err := json.Unmarshal(bb, &tr); err != nil {
		die("%v", err)
	}
	b := prepare(false)
	defer b.clean()
	if tr.Sim == "procprobe" {
		out, _, _ := runEngine(b.bin, 3*time.Minute, "-wsim.procprobe")
		fmt.Print(tail(out, 5), "\n")
		if strings.Contains(out, "PROCPROBE-VIOLATION") {
			abs, _ := filepath.Abs(path)
			fmt.Printf("VIOLATION property=C13 replay=%s\n", abs)
			return 1
		}
		return 0
	}
	abs, _ := filepath.Abs(path)
	out, rerr, _ := runEngine(b.bin, 10*time.Minute, "-wsim.trace", abs, "-wsim.sites", filepath.Join(b.dir, "sites.json"))
	fmt.Print(tail(out, 30), "\n")
	if rerr != nil && workerDied(out, rerr) && !strings.Contains(out, "REPLAY-") {
		fmt.Printf("the replay process died: %s\n", deathReason(out, rerr))
		fmt.Printf("VIOLATION property=%s replay=%s\n", tr.Property, abs)
		return 1
	}
	if strings.Contains(out, "REPLAY-VIOLATION") {
		fmt.Printf("VIOLATION property=%s replay=%s\n", tr.Property, abs)
		return 1
	}
	if !strings.Contains(out, "REPLAY-CLEAN") {
		return 2
	}
	return 0
}

func main() {
	if len(os.Args) < 2 {
		die("usage: wsimctl check <id> quick|thorough | replay <file> | selftest-determinism")
	}
	switch os.Args[1] {
	case "check":
		if len(os.Args) < 4 {
			die("usage: wsimctl check <id> quick|thorough")
		}
		tier := os.Args[3]
		if tier != "quick" && tier != "thorough" {
			die("tier must be quick or thorough")
		}
		os.Exit(check(os.Args[2], tier))
	case "replay":
		os.Exit(replay(os.Args[2]))
	case "selftest-determinism":
		os.Exit(selftestDeterminism(os.Args[2:]))
	case "manifest":
		os.Exit(writeManifest())
	case "warm":
		os.Exit(warm())
	default:
		die("unknown command %s", os.Args[1])
	}
}
