module wsim

go 1.26

require (
	github.com/anishathalye/porcupine v1.3.0
	github.com/go-graphite/go-whisper v0.0.0-20230221134257-6774e38a461b
	github.com/hnakamur/whispertool v0.0.0
)

require (
	github.com/bits-and-blooms/bitset v1.5.0 // indirect
	github.com/hnakamur/filebuffer v0.1.2 // indirect
	github.com/tklauser/go-sysconf v0.3.11 // indirect
	github.com/tklauser/numcpus v0.6.0 // indirect
	golang.org/x/sync v0.1.0 // indirect
	golang.org/x/sys v0.6.0 // indirect
)

replace github.com/hnakamur/whispertool => /repo
