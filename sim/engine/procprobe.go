package engine

import (
	"bufio"
	"fmt"
	"os"
	"os/exec"
	"path/filepath"
	"syscall"
	"testing"
	"time"

	wt "github.com/hnakamur/whispertool"
)

// Cross-process part of C13: a child process holds a default-option handle;
// while it does, the parent's non-blocking flock must be refused and the
// parent's Open must not return; after the child closes the handle the
// parent's Open must return. Pipe-synchronised, no simulated clock (two real
// processes and the real kernel lock).

func childHoldMain(path string) {
	if path == "-" {
		// an unrelated child process: just lives until its stdin is closed
		bufio.NewReader(os.Stdin).ReadString('\n')
		return
	}
	db, err := wt.Open(path)
	if err != nil {
		fmt.Println("child-open-failed:", err)
		os.Exit(3)
	}
	fmt.Println("held")
	bufio.NewReader(os.Stdin).ReadString('\n')
	db.Close()
	fmt.Println("closed")
	bufio.NewReader(os.Stdin).ReadString('\n')
}

// procProbe returns "" if the property held, otherwise a description.
func procProbe(t *testing.T) string {
	dir, err := os.MkdirTemp("/dev/shm", fmt.Sprintf("wsim-%d-", os.Getpid()))
	if err != nil {
		return ""
	}
	defer os.RemoveAll(dir)
	path := filepath.Join(dir, "shared.wsp")
	l := Layout{Archs: []Arch{{1, 60}}, Method: 2, Xff: 0.5}
	db, err := l.create(path)
	if err != nil {
		return "setup: " + err.Error()
	}
	db.Sync()
	db.Close()
	cmd := exec.Command(os.Args[0], "-test.run", "TestWsimMain", "-wsim.childhold", path)
	stdin, _ := cmd.StdinPipe()
	stdout, _ := cmd.StdoutPipe()
	if err := cmd.Start(); err != nil {
		return ""
	}
	defer func() {
		stdin.Close()
		cmd.Wait()
	}()
	rd := bufio.NewReader(stdout)
	line, _ := rd.ReadString('\n')
	if line != "held\n" {
		return "" // the child could not take the handle: no verdict
	}
	f, err := os.OpenFile(path, os.O_RDWR, 0)
	if err != nil {
		return ""
	}
	defer f.Close()
	if err := syscall.Flock(int(f.Fd()), syscall.LOCK_EX|syscall.LOCK_NB); err == nil {
		return "a non-blocking exclusive flock succeeded in the parent while a child process holds a default-option handle on the file"
	}
	opened := make(chan error, 1)
	go func() {
		db, err := wt.Open(path)
		if err == nil {
			db.Close()
		}
		opened <- err
	}()
	select {
	case err := <-opened:
		return fmt.Sprintf("Open in the parent returned (%v) while a child process still holds a default-option handle on the file", err)
	case <-time.After(300 * time.Millisecond):
	}
	fmt.Fprintln(stdin, "close")
	line, _ = rd.ReadString('\n')
	if line != "closed\n" {
		return ""
	}
	select {
	case err := <-opened:
		if err != nil {
			return "Open in the parent failed after the child closed its handle: " + err.Error()
		}
	case <-time.After(60 * time.Second):
		return "Open in the parent did not return within 60 s after the child process closed its handle"
	}
	fmt.Fprintln(stdin, "exit")
	// second part: a child process started while a handle is open must not keep
	// the lock alive after the handle was closed (descriptor not inherited)
	db2, err := wt.Open(path)
	if err != nil {
		return "Open failed: " + err.Error()
	}
	sleeper := exec.Command(os.Args[0], "-test.run", "TestWsimMain", "-wsim.childhold", "-")
	sin, _ := sleeper.StdinPipe()
	if err := sleeper.Start(); err != nil {
		db2.Close()
		return ""
	}
	db2.Close()
	f2, err := os.OpenFile(path, os.O_RDWR, 0)
	msg := ""
	if err == nil {
		if ferr := syscall.Flock(int(f2.Fd()), syscall.LOCK_EX|syscall.LOCK_NB); ferr != nil {
			msg = "the lock outlives Close: a child process started while the handle was open inherited the locked descriptor (non-blocking flock after Close refused: " + ferr.Error() + ")"
		}
		f2.Close()
	}
	sin.Close()
	sleeper.Wait()
	return msg
}
