package engine

import (
	"bytes"
	"encoding/json"
	"errors"
	"fmt"
	"math"
	"math/rand/v2"
	"os"
	"path/filepath"
	"strings"

	"github.com/hnakamur/whispertool/cmd"
)

// C16: commands fail loudly. One run = one cell of the grid
// {command} x {archive selection} x {window} x {environment fault} x {text-out}
// on a seeded world.

type GridCase struct {
	Layout    Layout  `json:"layout"`
	Clock0    int64   `json:"clock0"`
	Files     []WFile `json:"files"`
	Kind      string  `json:"kind"`
	ArchSel   string  `json:"arch_sel"` // all, id<k>, minus2, n
	Window    string  `json:"window"`   // default past future beyond-finest beyond-<k> degenerate from-after-until
	EnvFault  string  `json:"env"`      // none textout-unopenable textout-devfull src-missing src-corrupt dst-parent-is-file dst-exists dst-missing
	TextOut   string  `json:"text_out"` // none stdout file
	Remote    bool    `json:"remote,omitempty"`
	ViaParse  bool    `json:"via_parse,omitempty"`
	CopyNaN   bool    `json:"copy_nan,omitempty"`
	Glob      bool    `json:"glob,omitempty"` // diff / copy over the pattern grp/it0/[ab].wsp
	SchedSeed uint64  `json:"sched_seed"`
}

var gridKinds = []string{"view", "view-raw", "diff", "copy", "sum", "sum-copy", "sum-diff", "generate"}
var gridEnvs = []string{"none", "textout-unopenable", "textout-devfull", "src-missing", "src-corrupt", "dst-parent-is-file", "dst-exists", "dst-missing", "dst-method-7", "src-layout-mismatch", "src-dangling-symlink", "pattern-matches-nothing", "new-dst-layout-mismatch"}
var gridTextOuts = []string{"none", "stdout", "file"}

func gridArchSels(n int) []string {
	out := []string{"all"}
	for i := 0; i < n; i++ {
		out = append(out, fmt.Sprintf("id%d", i))
	}
	return append(out, "minus2", "n")
}

func gridWindows(n int) []string {
	out := []string{"default", "past", "future", "beyond-finest", "degenerate", "from-after-until"}
	for i := 1; i < n; i++ {
		out = append(out, fmt.Sprintf("beyond-%d", i))
	}
	return out
}

type gridSim struct{}

func (gridSim) Name() string { return "grid" }

func (gridSim) Decode(raw json.RawMessage) (interface{}, error) {
	var c GridCase
	if err := json.Unmarshal(raw, &c); err != nil {
		return nil, err
	}
	return &c, nil
}

// gridWorld builds the seeded world of a grid case: one item of 2 source
// files and a destination.
func gridWorld(r *rand.Rand, l Layout) []WFile {
	return []WFile{
		{Base: "src", Rel: "grp/it0/a.wsp", Layout: l, Fills: genFills(r, l, 1, 0.7)},
		{Base: "src", Rel: "grp/it0/b.wsp", Layout: l, Fills: genFills(r, l, 1, 0.7)},
		{Base: "dst", Rel: "grp/it0/a.wsp", Layout: l, Fills: genFills(r, l, 1, 0.4)},
		{Base: "dst", Rel: "grp/it0/b.wsp", Layout: l}, // made identical to the source's b.wsp at run time
		{Base: "dst", Rel: "grp/it0/sum.wsp", Layout: l, Fills: genFills(r, l, 1, 0.4)},
	}
}

// gridEnumSize is the number of cells of the enumerated grid (thorough tier).
var (
	enumArchSels = []string{"all", "id0", "id1", "id2", "id3", "minus2", "n"}
	enumWindows  = []string{"default", "past", "future", "beyond-finest", "degenerate", "from-after-until", "beyond-1", "beyond-2", "beyond-3"}
)

const gridEnumSize = 8 * 7 * 9 * 13 * 3 * 2 * 2 * 2

// genEnumerated decodes run index idx into (world number, cell): the thorough
// tier walks the whole grid for one seeded world after the other.
func genEnumerated(idx int) *GridCase {
	world := idx / gridEnumSize
	cell := idx % gridEnumSize
	r := newRng(RunSeed(*flagSeed, "C16/world", world))
	l := genLayout(r, pick(r, "small", "small", "edge", "four", "tiny"))
	c := &GridCase{Layout: l, Clock0: genClock0(r, l), SchedSeed: r.Uint64()}
	c.Files = gridWorld(r, l)
	take := func(n int) int { v := cell % n; cell /= n; return v }
	c.Kind = gridKinds[take(8)]
	c.ArchSel = enumArchSels[take(7)]
	c.Window = enumWindows[take(9)]
	c.EnvFault = gridEnvs[take(len(gridEnvs))]
	c.TextOut = gridTextOuts[take(3)]
	c.Remote = take(2) == 1
	c.ViaParse = take(2) == 1
	c.Glob = take(2) == 1
	c.CopyNaN = world%2 == 1
	switch c.Kind {
	case "view", "view-raw", "sum", "diff":
	default:
		c.Remote = false
	}
	return c
}

func (gridSim) Gen(prop, tier string, r *rand.Rand) interface{} {
	if tier == "thorough" {
		return genEnumerated(genIndex)
	}
	l := genLayout(r, pick(r, "small", "small", "edge", "four", "tiny"))
	c := &GridCase{Layout: l, Clock0: genClock0(r, l), SchedSeed: r.Uint64()}
	c.Files = gridWorld(r, l)
	n := len(l.Archs)
	c.Kind = gridKinds[r.IntN(len(gridKinds))]
	as := gridArchSels(n)
	c.ArchSel = as[r.IntN(len(as))]
	ws := gridWindows(n)
	c.Window = ws[r.IntN(len(ws))]
	c.EnvFault = gridEnvs[r.IntN(len(gridEnvs))]
	if chance(r, 0.3) {
		c.EnvFault = "none"
	}
	c.TextOut = gridTextOuts[r.IntN(len(gridTextOuts))]
	c.ViaParse = chance(r, 0.4)
	c.CopyNaN = chance(r, 0.5)
	c.Glob = chance(r, 0.3)
	switch c.Kind {
	case "view", "view-raw", "sum", "diff":
		c.Remote = chance(r, 0.25)
	}
	return c
}

func (c *GridCase) archive() int {
	n := len(c.Layout.Archs)
	switch {
	case c.ArchSel == "all":
		return -1
	case c.ArchSel == "minus2":
		return -2
	case c.ArchSel == "n":
		return n
	case strings.HasPrefix(c.ArchSel, "id"):
		var k int
		fmt.Sscanf(c.ArchSel, "id%d", &k)
		return k
	}
	return -1
}

func (c *GridCase) applyWindow(cm *Cmd) {
	l := c.Layout
	switch {
	case c.Window == "default":
	case c.Window == "past":
		cm.HasFrom, cm.HasUntil = true, true
		cm.FromAge, cm.UntilAge = l.Archs[0].R()/2+1, 1
	case c.Window == "future":
		cm.HasFrom, cm.HasUntil = true, true
		cm.FromAge, cm.UntilAge = -10, -100
	case c.Window == "beyond-finest":
		cm.HasFrom, cm.HasUntil = true, true
		cm.FromAge = l.MaxRet()
		cm.UntilAge = l.Archs[0].R() + l.Archs[0].S
		if cm.UntilAge > cm.FromAge {
			cm.UntilAge = cm.FromAge
		}
	case strings.HasPrefix(c.Window, "beyond-"):
		var k int
		fmt.Sscanf(c.Window, "beyond-%d", &k)
		if k >= len(l.Archs) {
			k = len(l.Archs) - 1
		}
		cm.HasFrom, cm.HasUntil = true, true
		cm.FromAge = l.Archs[k].R() + 5*l.Archs[k].S
		cm.UntilAge = l.Archs[k].R() + l.Archs[k].S
	case c.Window == "degenerate":
		cm.HasFrom, cm.HasUntil = true, true
		cm.FromAge, cm.UntilAge = 3, 3
	case c.Window == "from-after-until":
		cm.HasFrom, cm.HasUntil = true, true
		cm.FromAge, cm.UntilAge = 5, 50
	}
}

func (gridSim) Run(e *Env, ci interface{}) {
	c := ci.(*GridCase)
	if !c.Layout.Valid() || c.Clock0 < 946684800 || c.Clock0 > math.MaxUint32-3*400*86400 || len(c.Files) > 20 {
		e.Skip("invalid-case")
		return
	}
	okKind := false
	for _, k := range gridKinds {
		if k == c.Kind {
			okKind = true
		}
	}
	if !okKind {
		e.Skip("invalid-case")
		return
	}
	for _, f := range c.Files {
		if !f.Layout.Valid() || (f.Base != "src" && f.Base != "dst") || f.Rel == "" || f.Layout.String() != c.Layout.String() {
			e.Skip("invalid-case")
			return
		}
	}
	// the verdicts below are stated for the grid's world: exactly these files
	want := map[string]bool{"src/grp/it0/a.wsp": true, "src/grp/it0/b.wsp": true, "dst/grp/it0/a.wsp": true, "dst/grp/it0/b.wsp": true, "dst/grp/it0/sum.wsp": true}
	if len(c.Files) != len(want) {
		e.Skip("invalid-case")
		return
	}
	for _, f := range c.Files {
		if !want[f.Base+"/"+f.Rel] || f.Absent {
			e.Skip("invalid-case")
			return
		}
		delete(want, f.Base+"/"+f.Rel)
	}
	SetClock(e, c.Clock0)
	os.MkdirAll(filepath.Join(e.Dir, "src"), 0o755)
	os.MkdirAll(filepath.Join(e.Dir, "dst"), 0o755)
	for _, f := range c.Files {
		if err := buildFile(e, f); err != nil {
			e.Skip("world-build-failed")
			return
		}
	}
	if b := readFile(filepath.Join(e.Dir, "src", "grp/it0/b.wsp")); b != nil {
		os.WriteFile(filepath.Join(e.Dir, "dst", "grp/it0/b.wsp"), b, 0o644)
	}
	cm := Cmd{Kind: c.Kind, Archive: c.archive(), ViaParse: c.ViaParse, CopyNaN: c.CopyNaN, Create: c.Layout, SrcRemote: c.Remote, Fill: true, RandMax: 10}
	if c.SchedSeed%3 == 0 {
		cm.RandMax = int(pick(newRng(c.SchedSeed), int64(30000), 1000000, 2000000000/(c.Layout.MaxStep()/c.Layout.Archs[0].S+1)))
	}
	c.applyWindow(&cm)
	switch c.Kind {
	case "view", "view-raw":
		cm.Src = "grp/it0/a.wsp"
	case "diff", "copy":
		cm.Src = "grp/it0/a.wsp"
		if c.Glob {
			cm.Src = "grp/it0/[ab].wsp"
		}
	case "sum":
		cm.Item, cm.Src = "grp/it*", "*.wsp"
	case "sum-copy", "sum-diff":
		cm.Item, cm.Src, cm.Dest = "grp/it*", "*.wsp", "sum.wsp"
	case "generate":
		cm.Dest = "gen/new.wsp"
	}
	switch c.TextOut {
	case "none":
		cm.TextOut = "none"
	case "stdout":
		cm.TextOut = "stdout"
	default:
		cm.TextOut = "file"
	}
	srcA := filepath.Join(e.Dir, "src", "grp/it0/a.wsp")
	dstOf := map[string]string{"copy": "grp/it0/a.wsp", "diff": "grp/it0/a.wsp", "sum-copy": "grp/it0/sum.wsp", "sum-diff": "grp/it0/sum.wsp", "generate": "gen/new.wsp"}
	dstPath := ""
	if d, ok := dstOf[c.Kind]; ok {
		dstPath = filepath.Join(e.Dir, "dst", d)
	}
	fault := c.EnvFault
	switch fault {
	case "textout-unopenable":
		cm.TextOut = "unopenable"
	case "textout-devfull":
		cm.TextOut = "devfull"
	case "src-missing":
		if c.Kind == "generate" || (c.Glob && (c.Kind == "diff" || c.Kind == "copy")) {
			// with a pattern the missing file is simply not matched
			fault = "none"
		} else {
			os.Remove(srcA)
			if c.Kind == "sum" || c.Kind == "sum-copy" || c.Kind == "sum-diff" {
				os.Remove(filepath.Join(e.Dir, "src", "grp/it0/b.wsp"))
			}
		}
	case "src-corrupt":
		if c.Kind == "generate" {
			fault = "none"
		} else {
			os.WriteFile(srcA, bytes.Repeat([]byte{0xff, 0x00, 0x7f}, 20), 0o644)
		}
	case "dst-parent-is-file":
		if dstPath == "" || c.Kind == "diff" || c.Kind == "sum-diff" {
			fault = "none"
		} else {
			// the directory that should hold the destination is a regular file
			os.RemoveAll(filepath.Dir(dstPath))
			os.MkdirAll(filepath.Dir(filepath.Dir(dstPath)), 0o755)
			os.WriteFile(filepath.Dir(dstPath), []byte("not a directory"), 0o644)
		}
	case "dst-exists":
		if c.Kind != "generate" {
			fault = "none"
		} else {
			os.MkdirAll(filepath.Dir(dstPath), 0o755)
			os.WriteFile(dstPath, []byte("already here"), 0o644)
		}
	case "dst-missing":
		if c.Kind != "diff" && c.Kind != "sum-diff" && c.Kind != "copy" && c.Kind != "sum-copy" {
			fault = "none"
		} else {
			os.Remove(dstPath)
		}
	case "dst-method-7":
		// the destination's header carries aggregation method 7 ("mix", not storable)
		if c.Kind != "diff" && c.Kind != "sum-diff" && c.Kind != "copy" && c.Kind != "sum-copy" {
			fault = "none"
		} else if f, err := os.OpenFile(dstPath, os.O_WRONLY, 0); err == nil {
			f.WriteAt([]byte{0, 0, 0, 7}, 0)
			f.Close()
		} else {
			fault = "none"
		}
	case "src-dangling-symlink":
		// the last source file of the item is a symbolic link to nowhere
		if c.Kind != "sum" && c.Kind != "sum-copy" && c.Kind != "sum-diff" {
			fault = "none"
		} else {
			p := filepath.Join(e.Dir, "src", "grp/it0/b.wsp")
			os.Remove(p)
			if os.Symlink(filepath.Join(e.Dir, "nowhere.wsp"), p) != nil {
				fault = "none"
			}
		}
	case "pattern-matches-nothing":
		switch c.Kind {
		case "diff", "copy":
			cm.Src = "grp/it0/zz*.wsp"
		case "sum", "sum-copy", "sum-diff":
			cm.Item = "zz*"
		default:
			fault = "none"
		}
	case "new-dst-layout-mismatch":
		// the destination does not exist and the layout requested for it differs
		// from the sources' in the point count of the last archive
		if c.Kind != "copy" && c.Kind != "sum-copy" {
			fault = "none"
		} else {
			os.Remove(dstPath)
			l2 := Layout{Archs: append([]Arch(nil), c.Layout.Archs...), Method: c.Layout.Method, Xff: c.Layout.Xff}
			l2.Archs[len(l2.Archs)-1].N += 1 + int64(c.SchedSeed%4)
			if l2.Valid() {
				cm.Create = l2
			} else {
				fault = "none"
			}
		}
	case "src-layout-mismatch":
		// the last source file of the item has one point more in its last archive
		if c.Kind != "sum" && c.Kind != "sum-copy" && c.Kind != "sum-diff" {
			fault = "none"
		} else {
			l2 := Layout{Archs: append([]Arch(nil), c.Layout.Archs...), Method: c.Layout.Method, Xff: c.Layout.Xff}
			if c.SchedSeed%2 == 0 || l2.Archs[len(l2.Archs)-1].N < 3 || (len(l2.Archs) > 1 && (l2.Archs[len(l2.Archs)-1].N-1)*l2.Archs[len(l2.Archs)-1].S <= l2.Archs[len(l2.Archs)-2].R()) {
				l2.Archs[len(l2.Archs)-1].N++
			} else {
				l2.Archs[len(l2.Archs)-1].N--
			}
			p := filepath.Join(e.Dir, "src", "grp/it0/b.wsp")
			os.Remove(p)
			if !l2.Valid() || buildFile(e, WFile{Base: "src", Rel: "grp/it0/b.wsp", Layout: l2}) != nil {
				fault = "none"
			}
		}
	}
	if fault != "none" {
		e.Fault("F6." + fault)
	}
	if c.Kind == "generate" && fault != "dst-parent-is-file" {
		os.MkdirAll(filepath.Dir(dstPath), 0o755)
	}
	var dstBefore []byte
	if dstPath != "" {
		dstBefore = readFile(dstPath)
	}
	now := Now()
	from, until := cm.window(now)
	// what the source holds in the selected window (before the command)
	var srcVals, dstLacks int
	if (c.Kind == "copy") && fault != "src-missing" && fault != "src-corrupt" && from <= until && from >= 0 {
		if sv, err := viewFile(srcA, from, until, now); err == nil {
			dv, derr := viewFile(dstPath, from, until, now)
			for _, a := range selected(cm.Archive, len(c.Layout.Archs)) {
				if sv.series[a] == nil {
					continue
				}
				for i, v := range sv.series[a].vals {
					if !math.IsNaN(v) {
						srcVals++
						if derr != nil || dv.series[a] == nil || i >= len(dv.series[a].vals) || !sameBits(dv.series[a].vals[i], v) {
							dstLacks++
						}
					}
				}
			}
		}
	}
	// commands writing to stdout must not pollute the worker's output
	devnull, _ := os.OpenFile(os.DevNull, os.O_WRONLY, 0)
	oldStdout := os.Stdout
	if devnull != nil {
		os.Stdout = devnull
	}
	r := newCliRunner(e, c.SchedSeed, 0, c.Remote)
	locks := 0
	r.s.LockTrace = func(ev string, g *G, fd int) {
		if ev == "acquired" {
			locks++
		}
	}
	res := r.run1(cm, "cell")
	deadlockInfo := r.s.DeadlockInfo
	var srvPanics []string
	if r.srv != nil {
		srvPanics = r.srv.Panics
	}
	r.close()
	os.Stdout = oldStdout
	if devnull != nil {
		devnull.Close()
	}
	cell := fmt.Sprintf("%s archive=%s window=%s env=%s text-out=%s remote=%v via-parse=%v layout=%s", c.Kind, c.ArchSel, c.Window, fault, cm.TextOut, c.Remote, c.ViaParse, c.Layout)
	e.State(hashStr(fmt.Sprintf("%s|%s|%s|%s|%s|%v", c.Kind, c.ArchSel, c.Window, fault, cm.TextOut, c.Remote)))
	if res.aborted {
		// neither an effect nor an error: the command never returned (every
		// goroutine parked or waiting, nothing runnable for a simulated hour)
		e.Violate("C16.terminates", "%s: the command did not terminate;%s", cell, deadlockInfo)
		return
	}
	if len(res.panics) > 0 {
		e.Violate("C16.no-panic", "%s: panic: %s", cell, res.panics[0])
		return
	}
	if len(srvPanics) > 0 {
		e.Violate("C16.no-panic", "%s: %s", cell, srvPanics[0])
		return
	}
	e.Probe("cell-executed")
	if res.err != nil {
		e.Note("outcome/" + outcomeClass(res.err))
		return // (a) an error was reported
	}
	e.Note("outcome/success")
	// (b) success: there must be evidence that the work was done
	silent := func(format string, args ...interface{}) {
		e.Violate("C16.no-silent-success", "%s: reported success but %s", cell, fmt.Sprintf(format, args...))
	}
	if cm.TextOut == "unopenable" {
		silent("the text output could not have been opened (no-such-dir/out.txt)")
		return
	}
	if cm.TextOut == "devfull" {
		// every command of the grid prints at least one line (a now:/time: line
		// or the header); on /dev/full that output cannot have been written
		silent("its text output went to /dev/full, where nothing can be written")
		return
	}
	out := res.out
	wantOut := cm.TextOut == "" || cm.TextOut == "file"
	if c.Kind == "generate" && cm.TextOut == "" {
		wantOut = true
	}
	switch c.Kind {
	case "view", "view-raw":
		if fault == "src-missing" || fault == "src-corrupt" {
			silent("its source was %s", fault)
			return
		}
		if cm.TextOut == "file" && !strings.Contains(out, "aggMethod:") {
			silent("the text-out file holds no header (%d bytes)", len(out))
			return
		}
	case "sum":
		if fault == "src-missing" || fault == "src-corrupt" || fault == "src-layout-mismatch" || fault == "src-dangling-symlink" || fault == "pattern-matches-nothing" {
			silent("its source was %s", fault)
			return
		}
		if cm.TextOut == "file" && !strings.Contains(out, "item:") {
			silent("the text-out file names no item")
			return
		}
	case "diff", "sum-diff":
		if fault == "src-missing" || fault == "src-corrupt" || fault == "dst-missing" || fault == "dst-method-7" || fault == "src-layout-mismatch" || fault == "src-dangling-symlink" || fault == "pattern-matches-nothing" {
			silent("an input was %s, so both inputs cannot have been compared", fault)
			return
		}
		if cm.TextOut == "file" && !strings.Contains(out, "now:") {
			silent("the text-out file shows no compared file or item")
			return
		}
		want := 2
		if c.Kind == "sum-diff" {
			want = 3
		}
		if locks < want {
			silent("only %d input file(s) were opened and locked (%d expected)", locks, want)
			return
		}
	case "copy", "sum-copy":
		if fault == "src-missing" || fault == "src-corrupt" || fault == "dst-parent-is-file" || fault == "dst-method-7" || fault == "src-layout-mismatch" || fault == "src-dangling-symlink" || fault == "pattern-matches-nothing" || fault == "new-dst-layout-mismatch" {
			silent("its environment was %s", fault)
			return
		}
		after := readFile(dstPath)
		if after == nil {
			silent("the destination does not exist")
			return
		}
		if v, err := viewFile(dstPath, 0, now, now); err != nil || v.hdr != headerBlock(c.Layout) {
			silent("the destination does not carry the requested header (%v)", err)
			return
		}
		if c.Kind == "copy" && dstLacks > 0 && bytes.Equal(after, dstBefore) {
			silent("the source holds %d value(s) in the selected window that the destination lacks, and the destination's bytes did not change", dstLacks)
			return
		}
	case "generate":
		if fault == "dst-exists" || fault == "dst-parent-is-file" {
			silent("its environment was %s", fault)
			return
		}
		after := readFile(dstPath)
		expLen := 16 + 12*len(c.Layout.Archs)
		for _, a := range c.Layout.Archs {
			expLen += 12 * int(a.N)
		}
		if len(after) != expLen {
			silent("the generated file has %d bytes, the layout needs %d", len(after), expLen)
			return
		}
	}
	_ = wantOut
	_ = errors.Is
	_ = cmd.ErrDiffFound
}
