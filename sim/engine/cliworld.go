package engine

import (
	"context"
	"errors"
	"flag"
	"fmt"
	"io"
	"log"
	"math"
	"net"
	"net/http"
	"os"
	"path/filepath"
	"strconv"
	"strings"
	"sync"
	"syscall"
	"time"

	wt "github.com/hnakamur/whispertool"
	"github.com/hnakamur/whispertool/cmd"

	"wsim/model"
)

func init() { log.SetOutput(io.Discard) }

// ---------------------------------------------------------------------------
// world files

// WFill is one explicit-archive batch written while building the world.
type WFill struct {
	ID  int     `json:"id"`
	Pts []LibPt `json:"pts"`
}

// WFile is one whisper file of a world.
type WFile struct {
	Base    string  `json:"base"` // "src" or "dst"
	Rel     string  `json:"rel"`  // path relative to the base
	Layout  Layout  `json:"layout"`
	Fills   []WFill `json:"fills,omitempty"`
	Absent  bool    `json:"absent,omitempty"`
	Link    bool    `json:"link,omitempty"`     // the path is a symbolic link to the real file (kept outside the bases)
	LinkDir bool    `json:"link_dir,omitempty"` // the directory holding the file is a symbolic link to a real directory outside the bases
}

func (w WFile) path(e *Env) string { return filepath.Join(e.Dir, w.Base, w.Rel) }

// buildFile creates and fills one world file at the simulated clock.
func buildFile(e *Env, w WFile) error {
	if w.Absent {
		return nil
	}
	p := w.path(e)
	if w.LinkDir {
		dir := filepath.Dir(p)
		realDir := filepath.Join(e.Dir, "real", w.Base, filepath.Dir(w.Rel))
		if err := os.MkdirAll(realDir, 0o755); err != nil {
			return err
		}
		if err := os.MkdirAll(filepath.Dir(dir), 0o755); err != nil {
			return err
		}
		if fi, err := os.Lstat(dir); err != nil {
			if err := os.Symlink(realDir, dir); err != nil {
				return err
			}
		} else if fi.Mode()&os.ModeSymlink == 0 {
			return fmt.Errorf("directory exists and is not a link")
		}
	}
	if err := os.MkdirAll(filepath.Dir(p), 0o755); err != nil {
		return err
	}
	if w.Link {
		real := filepath.Join(e.Dir, "real", w.Base, w.Rel)
		if err := os.MkdirAll(filepath.Dir(real), 0o755); err != nil {
			return err
		}
		if err := os.Symlink(real, p); err != nil {
			return err
		}
		p = real
	}
	db, err := w.Layout.create(p, wt.WithoutFlock())
	if err != nil {
		return err
	}
	defer db.Close()
	now := Now()
	for _, f := range w.Fills {
		if f.ID < 0 || f.ID >= len(w.Layout.Archs) {
			return fmt.Errorf("bad fill id")
		}
		pts := make([]wt.Point, 0, len(f.Pts))
		for _, p := range f.Pts {
			t := now - p.Age
			if t <= 0 || t > math.MaxUint32 {
				return fmt.Errorf("bad fill time")
			}
			pts = append(pts, wt.Point{Time: wt.Timestamp(t), Value: wt.Value(p.V)})
		}
		if _, pan := callSafely(func() error { return db.UpdatePointsForArchive(pts, f.ID, wt.Timestamp(now)) }); pan != "" {
			return fmt.Errorf("panic while filling: %s", pan)
		}
	}
	return db.Sync()
}

// readSeries reads, through the library, the series of every archive of a file
// for the window (from, until] at clock now; nil entries mean "no series".
type fileView struct {
	layout []model.Arch
	hdr    string
	series []*seriesView
	raws   []model.Raw
}

type seriesView struct {
	from, until, step int64
	vals              []float64
}

func viewFile(path string, from, until, now int64) (*fileView, error) {
	db, err := wt.Open(path, wt.WithoutFlock())
	if err != nil {
		return nil, err
	}
	defer db.Close()
	v := &fileView{hdr: db.Header().String()}
	for _, a := range db.ArchiveInfoList() {
		v.layout = append(v.layout, model.Arch{S: int64(a.SecondsPerPoint()), N: int64(a.NumberOfPoints())})
	}
	for id := range v.layout {
		ts, err := db.FetchFromArchive(id, wt.Timestamp(from), wt.Timestamp(until), wt.Timestamp(now))
		if err != nil {
			return nil, err
		}
		if ts == nil {
			v.series = append(v.series, nil)
		} else {
			sv := &seriesView{from: int64(ts.FromTime()), until: int64(ts.UntilTime()), step: int64(ts.Step())}
			for _, x := range ts.Values() {
				sv.vals = append(sv.vals, float64(x))
			}
			v.series = append(v.series, sv)
		}
		raw, err := rawOf(db, id)
		if err != nil {
			return nil, err
		}
		v.raws = append(v.raws, raw)
	}
	return v, nil
}

func sameLayout(a, b []model.Arch) bool {
	if len(a) != len(b) {
		return false
	}
	for i := range a {
		if a[i] != b[i] {
			return false
		}
	}
	return true
}

// ---------------------------------------------------------------------------
// commands

// Cmd is a CLI invocation in symbolic form.
type Cmd struct {
	Kind      string `json:"kind"` // copy diff view view-raw sum sum-copy sum-diff generate
	SrcRemote bool   `json:"src_remote,omitempty"`
	DstRemote bool   `json:"dst_remote,omitempty"`
	Src       string `json:"src,omitempty"`  // file rel path or pattern
	Dest      string `json:"dest,omitempty"` // dest rel path
	Item      string `json:"item,omitempty"`
	HasFrom   bool   `json:"has_from,omitempty"`
	FromAge   int64  `json:"from_age,omitempty"`
	HasUntil  bool   `json:"has_until,omitempty"`
	UntilAge  int64  `json:"until_age,omitempty"`
	Archive   int    `json:"archive"`
	CopyNaN   bool   `json:"copy_nan,omitempty"`
	NoHeader  bool   `json:"no_header,omitempty"`
	Sort      bool   `json:"sort,omitempty"`
	TextOut   string `json:"text_out,omitempty"` // "file" (default), "none", "unopenable", "devfull", "stdout"
	ViaParse  bool   `json:"via_parse,omitempty"`
	Create    Layout `json:"create,omitempty"` // layout flags for copy / sum-copy / generate
	Fill      bool   `json:"fill,omitempty"`
	RandMax   int    `json:"rand_max,omitempty"`
	SwapBases bool   `json:"swap_bases,omitempty"` // src base = dst dir and vice versa
	DstIsSrc  bool   `json:"dst_is_src,omitempty"` // the destination base is the source base (local directory or URL alike)
	BaseStyle string `json:"base_style,omitempty"` // spelling of local base directories: "", "slash", "dot", "dslash"
}

type cmdResult struct {
	err     error
	aborted bool // the command never returned (deadlock); err is set to errDeadlock
	panics  []string
	built   cmd.Command // the command value that was executed (for re-execution)
	tout    string
	out     string // contents of the text-out file
	now     int64  // clock when the command started
}

const simURL = "http://sim"

var errDeadlock = errors.New("wsim: the command did not terminate (deadlock detected by the scheduler)")

func (c Cmd) window(now int64) (from, until int64) {
	if c.HasFrom {
		from = now - c.FromAge
	}
	until = now
	if c.HasUntil {
		until = now - c.UntilAge
	}
	return
}

func tsFlag(t int64) string { return time.Unix(t, 0).UTC().Format(wt.UTCTimeLayout) }

// textOutPath resolves the symbolic text-out of a command.
func textOutPath(e *Env, c Cmd, tag string) string {
	switch c.TextOut {
	case "none":
		return ""
	case "unopenable":
		return filepath.Join(e.Dir, "no-such-dir", "out.txt")
	case "devfull":
		return "/dev/full"
	case "stdout":
		return "-"
	}
	return filepath.Join(e.Dir, "out-"+tag+".txt")
}

// buildCommand turns the symbolic command into a cmd.Command, either by
// filling the struct or through Parse(args).
func buildCommand(e *Env, c Cmd, now int64, tag string) (cmd.Command, string, error) {
	srcBase := filepath.Join(e.Dir, "src")
	dstBase := filepath.Join(e.Dir, "dst")
	if c.SwapBases {
		srcBase, dstBase = dstBase, srcBase
	}
	if c.DstIsSrc {
		dstBase = srcBase
	}
	srcBase, dstBase = spellBase(srcBase, c.BaseStyle), spellBase(dstBase, c.BaseStyle)
	if c.SrcRemote {
		srcBase = simURL
		if c.DstIsSrc {
			dstBase = simURL
		}
	}
	if c.DstRemote {
		dstBase = simURL
	}
	from, until := c.window(now)
	var fromTS, untilTS wt.Timestamp
	if c.HasFrom {
		if from < 0 || from > math.MaxUint32 {
			return nil, "", fmt.Errorf("from out of domain")
		}
		fromTS = wt.Timestamp(from)
	}
	if c.HasUntil {
		if until < 0 || until > math.MaxUint32 {
			return nil, "", fmt.Errorf("until out of domain")
		}
		untilTS = wt.Timestamp(until)
	}
	tout := textOutPath(e, c, tag)
	var args []string
	add := func(k, v string) { args = append(args, "-"+k+"="+v) }
	var command cmd.Command
	layoutArgs := func() {
		add("agg-method", methodName(c.Create.Method))
		add("x-files-factor", xffString(c.Create.Xff))
		add("retentions", c.Create.String())
	}
	switch c.Kind {
	case "copy":
		command = &cmd.CopyCommand{SrcBase: srcBase, SrcRelPath: c.Src, DestBase: dstBase, DestRelPath: c.Dest,
			AggregationMethod: wtMethod(c.Create.Method), XFilesFactor: float32(c.Create.Xff), ArchiveInfoList: c.Create.wtListFilled(),
			From: fromTS, Until: untilTS, ArchiveID: c.Archive, TextOut: tout, CopyNaN: c.CopyNaN}
		add("src-base", srcBase)
		add("src", c.Src)
		add("dest-base", dstBase)
		if c.Dest != "" {
			add("dest", c.Dest)
		}
		layoutArgs()
		if c.CopyNaN { // default false
			add("copy-nan", "true")
		}
	case "diff":
		command = &cmd.DiffCommand{SrcBase: srcBase, SrcRelPath: c.Src, DestBase: dstBase, DestRelPath: c.Dest,
			From: fromTS, Until: untilTS, ArchiveID: c.Archive, TextOut: tout}
		add("src-base", srcBase)
		add("src", c.Src)
		add("dest-base", dstBase)
		if c.Dest != "" {
			add("dest", c.Dest)
		}
	case "view":
		command = &cmd.ViewCommand{SrcBase: srcBase, SrcRelPath: c.Src, From: fromTS, Until: untilTS, ArchiveID: c.Archive, ShowHeader: !c.NoHeader, TextOut: tout}
		add("src-base", srcBase)
		add("src", c.Src)
		if c.NoHeader { // default true
			add("header", "false")
		}
	case "view-raw":
		command = &cmd.ViewRawCommand{SrcBase: srcBase, SrcRelPath: c.Src, From: fromTS, Until: untilTS, ArchiveID: c.Archive, ShowHeader: !c.NoHeader, SortsByTime: c.Sort, TextOut: tout}
		add("src-base", srcBase)
		add("src", c.Src)
		if c.NoHeader {
			add("header", "false")
		}
		if c.Sort { // default false
			add("sort", "true")
		}
	case "sum":
		command = &cmd.SumCommand{SrcBase: srcBase, ItemPattern: c.Item, SrcPattern: c.Src, From: fromTS, Until: untilTS, ArchiveID: c.Archive, TextOut: tout, ShowHeader: !c.NoHeader}
		add("src-base", srcBase)
		add("item", c.Item)
		add("src", c.Src)
		if c.NoHeader {
			add("header", "false")
		}
	case "sum-copy":
		command = &cmd.SumCopyCommand{SrcBase: srcBase, DestBase: dstBase, ItemPattern: c.Item, SrcPattern: c.Src, DestRelPath: c.Dest,
			AggregationMethod: wtMethod(c.Create.Method), XFilesFactor: float32(c.Create.Xff), ArchiveInfoList: c.Create.wtListFilled(),
			From: fromTS, Until: untilTS, ArchiveID: c.Archive, TextOut: tout}
		add("src-base", srcBase)
		add("dest-base", dstBase)
		add("item", c.Item)
		add("src", c.Src)
		add("dest", c.Dest)
		layoutArgs()
	case "sum-diff":
		command = &cmd.SumDiffCommand{SrcBase: srcBase, ItemPattern: c.Item, SrcPattern: c.Src, DestBase: dstBase, DestRelPath: c.Dest,
			From: fromTS, Until: untilTS, ArchiveID: c.Archive, TextOut: tout}
		add("src-base", srcBase)
		add("dest-base", dstBase)
		add("item", c.Item)
		add("src", c.Src)
		add("dest", c.Dest)
	case "generate":
		command = &cmd.GenerateCommand{Dest: filepath.Join(dstBase, c.Dest), Perm: 0o644, AggregationMethod: wtMethod(c.Create.Method),
			XFilesFactor: float32(c.Create.Xff), ArchiveInfoList: c.Create.wtListFilled(), RandMax: c.RandMax, Fill: c.Fill, TextOut: tout}
		add("dest", filepath.Join(dstBase, c.Dest))
		layoutArgs()
		if c.RandMax != 100 { // default 100
			add("max", strconv.Itoa(c.RandMax))
		}
		if !c.Fill { // default true
			add("fill", "false")
		}
	default:
		return nil, "", fmt.Errorf("unknown command kind %q", c.Kind)
	}
	if c.Kind != "generate" {
		if c.HasFrom {
			add("from", tsFlag(from))
		}
		if c.HasUntil {
			add("until", tsFlag(until))
		}
		if c.Archive != -1 { // default: all archives
			add("archive", strconv.Itoa(c.Archive))
		}
	}
	add("text-out", tout)
	if c.ViaParse {
		var pc cmd.Command
		switch c.Kind {
		case "copy":
			pc = &cmd.CopyCommand{}
		case "diff":
			pc = &cmd.DiffCommand{}
		case "view":
			pc = &cmd.ViewCommand{}
		case "view-raw":
			pc = &cmd.ViewRawCommand{}
		case "sum":
			pc = &cmd.SumCommand{}
		case "sum-copy":
			pc = &cmd.SumCopyCommand{}
		case "sum-diff":
			pc = &cmd.SumDiffCommand{}
		case "generate":
			pc = &cmd.GenerateCommand{}
		}
		fs := flag.NewFlagSet(c.Kind, flag.ContinueOnError)
		fs.SetOutput(io.Discard)
		if os.Getenv("WSIM_DEBUG") != "" {
			fmt.Fprintf(os.Stderr, "DEBUG args %q\n", args)
		}
		if err := pc.Parse(fs, args); err != nil {
			return nil, tout, &parseError{err}
		}
		command = pc
	}
	return command, tout, nil
}

// spellBase returns a non-canonical but equivalent spelling of a directory.
func spellBase(dir, style string) string {
	switch style {
	case "slash":
		return dir + "/"
	case "dot":
		return filepath.Dir(dir) + "/./" + filepath.Base(dir)
	case "dslash":
		return filepath.Dir(dir) + "//" + filepath.Base(dir)
	}
	return dir
}

type parseError struct{ err error }

func (p *parseError) Error() string { return "parse: " + p.err.Error() }

// wtListFilled returns the archive list with offsets filled in (as the flag
// parser would produce it).
func (l Layout) wtListFilled() wt.ArchiveInfoList {
	if len(l.Archs) == 0 {
		return nil
	}
	al, err := wt.ParseArchiveInfoList(l.String())
	if err != nil {
		return l.wtList()
	}
	return al
}

// ---------------------------------------------------------------------------
// command execution under the scheduler

// cliRunner executes commands as actors of one scheduler.
type cliRunner struct {
	first       *cmdResult // result of the first command this runner executed
	expectAbort bool       // the run injects a process death: an aborted command is expected
	e           *Env
	s           *Sched
	srv         *simServer
	remote      bool
}

func newCliRunner(e *Env, schedSeed uint64, preemptP float64, remote bool) *cliRunner {
	r := &cliRunner{e: e, remote: remote}
	r.s = NewSched(schedSeed, nSites)
	r.s.MaxYields = 40_000_000 // a view of a 175 000-point archive passes ~3 M statements per side
	r.s.PreemptP = preemptP
	if e.SchedRec != nil && e.SchedRec.Replay {
		r.s.SetReplay(e.SchedRec.Choices, e.SchedRec.Preempts)
	}
	if remote {
		r.srv = startSimServer(e, r.s, filepath.Join(e.Dir, serveBase))
	}
	return r
}

// serveBase is the world directory the simulated server serves ("src"; "dst"
// while a command with only a remote destination runs).
var serveBase = "src"

func (r *cliRunner) close() {
	if r.srv != nil {
		r.srv.stop()
	}
	e := r.e
	s := r.s
	e.OutSched = &SchedRec{Seed: 0, PreemptP: s.PreemptP, Choices: s.Choices, Preempts: s.Preempts}
	e.Stats.Yields += int64(s.Yields)
	e.Stats.Decisions += int64(s.Decisions)
	if s.Switches > 1 {
		e.Stats.Interleave[s.Signature()] = true
	}
	for i, n := range s.Cover {
		if n > 0 && i < len(e.Cover) {
			e.Cover[i] += n
		}
	}
}

// run executes the given commands concurrently (one actor each) and returns
// their results in order.
func (r *cliRunner) run(cmds []Cmd, tags []string) []*cmdResult {
	res := make([]*cmdResult, len(cmds))
	now := Now()
	r.e.Stats.Ops += int64(len(cmds))
	for i := range cmds {
		i := i
		res[i] = &cmdResult{now: now}
		command, tout, berr := buildCommand(r.e, cmds[i], now, tags[i])
		if berr != nil {
			res[i].err = berr
			continue
		}
		res[i].built, res[i].tout = command, tout
		if tout != "" && tout != "-" && tout != "/dev/full" {
			os.Remove(tout)
		}
		res[i].aborted = true
		res[i].err = errDeadlock
		r.s.Go(fmt.Sprintf("A%d", i), func() {
			defer func() {
				if x := recover(); x != nil {
					if IsAbort(x) {
						panic(x)
					}
					res[i].aborted = false
					res[i].err = nil
					res[i].panics = append(res[i].panics, fmt.Sprintf("%v", x))
				}
			}()
			err := command.Execute()
			res[i].err = err
			res[i].aborted = false
		})
		_ = tout
	}
	np := len(r.s.Panics)
	var fds []int
	prevTrace := r.s.LockTrace
	r.s.LockTrace = func(ev string, g *G, fd int) {
		if ev == "acquired" && !strings.HasPrefix(g.Name, "srv:") {
			// descriptors of the command's own goroutines; the server is one
			// long-lived process, what its handlers leak stays locked
			fds = append(fds, fd)
		}
		if prevTrace != nil {
			prevTrace(ev, g, fd)
		}
	}
	r.s.Install()
	r.s.Run()
	Uninstall()
	r.s.LockTrace = prevTrace
	// every command stands for a separate process: when the process is gone
	// its locks are gone, even those of handles the command never closed
	// (the descriptors themselves are closed later by their finalizers)
	for _, fd := range fds {
		syscall.Flock(fd, syscall.LOCK_UN)
	}
	for i := range res {
		if res[i].aborted && !r.expectAbort {
			r.e.Skip("command-did-not-terminate")
		}
	}
	if r.first == nil && len(res) > 0 {
		r.first = res[0]
	}
	for i := range cmds {
		if tout := textOutPath(r.e, cmds[i], tags[i]); tout != "" && tout != "-" && tout != "/dev/full" {
			res[i].out = string(readFile(tout))
			if os.Getenv("WSIM_DEBUG") != "" {
				fmt.Fprintf(os.Stderr, "DEBUG run %s %s: tout=%s len=%d err=%v panics=%v\n", tags[i], cmds[i].Kind, tout, len(res[i].out), res[i].err, res[i].panics)
			}
		}
	}
	if len(r.s.Panics) > np {
		for _, p := range r.s.Panics[np:] {
			// attribute worker/handler panics to every command of this batch
			for i := range res {
				res[i].panics = append(res[i].panics, firstLine(p))
			}
		}
	}
	return res
}

// rerun executes the command value of an earlier result once more.
func (r *cliRunner) rerun(prev *cmdResult, tag string) *cmdResult {
	res := &cmdResult{now: Now(), aborted: true, err: errDeadlock, built: prev.built, tout: prev.tout}
	if prev.tout != "" && prev.tout != "-" && prev.tout != "/dev/full" {
		os.Remove(prev.tout)
	}
	r.s.Go("A0", func() {
		defer func() {
			if x := recover(); x != nil {
				if IsAbort(x) {
					panic(x)
				}
				res.aborted, res.err = false, nil
				res.panics = append(res.panics, fmt.Sprintf("%v", x))
			}
		}()
		err := prev.built.Execute()
		res.err, res.aborted = err, false
	})
	var fds []int
	prevTrace := r.s.LockTrace
	r.s.LockTrace = func(ev string, g *G, fd int) {
		if ev == "acquired" && !strings.HasPrefix(g.Name, "srv:") {
			fds = append(fds, fd)
		}
	}
	r.s.Install()
	r.s.Run()
	Uninstall()
	r.s.LockTrace = prevTrace
	for _, fd := range fds {
		syscall.Flock(fd, syscall.LOCK_UN)
	}
	if prev.tout != "" && prev.tout != "-" && prev.tout != "/dev/full" {
		res.out = string(readFile(prev.tout))
	}
	return res
}

func (r *cliRunner) run1(c Cmd, tag string) *cmdResult {
	return r.run([]Cmd{c}, []string{tag})[0]
}

func firstLine(s string) string {
	if i := strings.IndexByte(s, '\n'); i >= 0 {
		return s[:i]
	}
	return s
}

// outcome classes used when comparing commands
func outcomeClass(err error) string {
	switch {
	case err == nil:
		return "success"
	case errors.Is(err, cmd.ErrDiffFound):
		return "diff-found"
	case os.IsNotExist(err) || errors.Is(err, os.ErrNotExist):
		return "not-exist"
	}
	var pe *parseError
	if errors.As(err, &pe) {
		return "parse-error"
	}
	return "error"
}

// ---------------------------------------------------------------------------
// the simulated wire: real net/http client and server over in-memory pipes

type simServer struct {
	srv     *http.Server
	ln      *pipeListener
	oldMux  *http.ServeMux
	oldTr   http.RoundTripper
	s       *Sched
	mu      sync.Mutex
	seq     map[string]int
	Panics  []string
	fault   func(req *http.Request) *wireFault // decides a fault for a request (nil = none)
	Reqs    int
	stopped bool
}

// wireFault describes what happens to one response on the wire.
type wireFault struct {
	Kind string `json:"kind"` // truncate flip garbage status close
	At   int    `json:"at"`
	Bit  int    `json:"bit"`
	Code int    `json:"code"`
	Body []byte `json:"-"`

	measure *int64  // kind "measure": record the undamaged body length
	damage  *Damage // kind "damage": structure-aware mutation of the real body
}

type pipeListener struct {
	ch     chan net.Conn
	closed chan struct{}
	once   sync.Once
}

func (l *pipeListener) Accept() (net.Conn, error) {
	select {
	case c := <-l.ch:
		return c, nil
	case <-l.closed:
		return nil, net.ErrClosed
	}
}
func (l *pipeListener) Close() error   { l.once.Do(func() { close(l.closed) }); return nil }
func (l *pipeListener) Addr() net.Addr { return &net.TCPAddr{IP: net.IPv4(127, 0, 0, 1), Port: 80} }

type stampTransport struct {
	base http.RoundTripper
	srv  *simServer
}

func (t *stampTransport) RoundTrip(req *http.Request) (*http.Response, error) {
	name := "ext"
	if g := t.srv.s.Me(); g != nil {
		name = g.Name
	}
	t.srv.mu.Lock()
	t.srv.seq[name]++
	n := t.srv.seq[name]
	t.srv.Reqs++
	t.srv.mu.Unlock()
	req = req.Clone(req.Context())
	req.Header.Set("X-Sim-Actor", fmt.Sprintf("%s#%d", name, n))
	return t.base.RoundTrip(req)
}

// startSimServer registers the real handlers of ServerCommand on a fresh
// default mux (Execute registers them and then fails at Listen because the
// address is unlistenable) and serves them over pipes.
func startSimServer(e *Env, s *Sched, baseDir string) *simServer {
	return startSimServerMode(e, s, baseDir, false)
}

// startSimServerFree is startSimServer without scheduler control of the
// handler goroutines (free-running race-detector workloads).
func startSimServerFree(e *Env, s *Sched, baseDir string) *simServer {
	return startSimServerMode(e, s, baseDir, true)
}

func startSimServerMode(e *Env, s *Sched, baseDir string, free bool) *simServer {
	ss := &simServer{s: s, seq: map[string]int{}}
	ss.oldMux = http.DefaultServeMux
	http.DefaultServeMux = http.NewServeMux()
	sc := &cmd.ServerCommand{Addr: ":99999", BaseDir: baseDir}
	if err := sc.Execute(); err == nil {
		panic("ServerCommand.Execute with an unlistenable address returned nil")
	}
	mux := http.DefaultServeMux
	ss.ln = &pipeListener{ch: make(chan net.Conn), closed: make(chan struct{})}
	handler := http.HandlerFunc(func(w http.ResponseWriter, r *http.Request) {
		name := r.Header.Get("X-Sim-Actor")
		r.Header.Del("X-Sim-Actor")
		if !free {
			done := s.Adopt("srv:" + name)
			defer done()
		}
		var fault *wireFault
		if ss.fault != nil {
			fault = ss.fault(r)
		}
		defer func() {
			if x := recover(); x != nil {
				if !IsAbort(x) && x != http.ErrAbortHandler {
					ss.mu.Lock()
					ss.Panics = append(ss.Panics, fmt.Sprintf("handler %s %s: panic: %v", r.URL.Path, r.URL.RawQuery, x))
					ss.mu.Unlock()
				}
				panic(http.ErrAbortHandler)
			}
		}()
		if fault == nil {
			mux.ServeHTTP(w, r)
			return
		}
		if fault.damage != nil && fault.damage.Kind == "other-question" {
			// a well-formed answer to another question: the request is served as
			// if every archive had been asked for
			q := r.URL.Query()
			if q.Get("retention") != "" {
				q.Set("retention", "-1")
			}
			r.URL.RawQuery = q.Encode()
			r.Form = nil
		}
		rec := &recorder{hdr: http.Header{}, code: 200}
		mux.ServeHTTP(rec, r)
		applyWireFault(w, rec, fault)
	})
	ss.srv = &http.Server{Handler: handler, ErrorLog: log.New(io.Discard, "", 0)}
	go ss.srv.Serve(ss.ln)
	tr := &http.Transport{
		DialContext: func(ctx context.Context, network, addr string) (net.Conn, error) {
			c1, c2 := net.Pipe()
			select {
			case ss.ln.ch <- c2:
				return c1, nil
			case <-ss.ln.closed:
				return nil, net.ErrClosed
			}
		},
		DisableKeepAlives:  true,
		DisableCompression: true,
	}
	ss.oldTr = http.DefaultClient.Transport
	http.DefaultClient.Transport = &stampTransport{base: tr, srv: ss}
	return ss
}

func (ss *simServer) stop() {
	if ss.stopped {
		return
	}
	ss.stopped = true
	ss.srv.Close()
	ss.ln.Close()
	http.DefaultClient.Transport = ss.oldTr
	http.DefaultServeMux = ss.oldMux
}

type recorder struct {
	hdr  http.Header
	code int
	body []byte
}

func (r *recorder) Header() http.Header         { return r.hdr }
func (r *recorder) WriteHeader(c int)           { r.code = c }
func (r *recorder) Write(b []byte) (int, error) { r.body = append(r.body, b...); return len(b), nil }

func applyWireFault(w http.ResponseWriter, rec *recorder, f *wireFault) {
	for k, v := range rec.hdr {
		w.Header()[k] = v
	}
	body := rec.body
	switch f.Kind {
	case "truncate":
		at := f.At
		if at > len(body) {
			at = len(body)
		}
		w.Header().Set("Content-Length", strconv.Itoa(len(body)))
		w.WriteHeader(rec.code)
		w.Write(body[:at])
		panic(http.ErrAbortHandler)
	case "flip":
		if len(body) > 0 {
			b := append([]byte(nil), body...)
			b[f.At%len(b)] ^= 1 << uint(f.Bit%8)
			body = b
		}
	case "garbage", "replace":
		body = f.Body
	case "measure":
		*f.measure = int64(len(body))
	case "damage":
		if f.damage.Kind == "lie-length" {
			w.Header().Set("Content-Length", strconv.FormatUint(f.damage.Val, 10))
			w.WriteHeader(rec.code)
			w.Write(body)
			panic(http.ErrAbortHandler)
		}
		body = applyDamage(body, *f.damage)
		if f.damage.Kind == "truncate" {
			// a framing-level truncation would be caught by Content-Length;
			// hand the short body over as a complete response instead
			w.Header().Del("Content-Length")
		}
	case "status":
		w.Header().Set("Content-Type", "text/plain")
		w.WriteHeader(f.Code)
		w.Write([]byte("Internal Server Error: injected\n"))
		return
	case "close":
		panic(http.ErrAbortHandler)
	}
	w.WriteHeader(rec.code)
	w.Write(body)
}

// ---------------------------------------------------------------------------
// text output parsing (LTSV-style lines)

type outLine map[string]string

func parseOut(s string) []outLine {
	var out []outLine
	for _, ln := range strings.Split(s, "\n") {
		if ln == "" {
			continue
		}
		m := outLine{}
		for _, f := range strings.Split(ln, "\t") {
			if i := strings.IndexByte(f, ':'); i >= 0 {
				m[f[:i]] = f[i+1:]
			} else {
				m[f] = ""
			}
		}
		m["_raw"] = ln
		out = append(out, m)
	}
	return out
}

func parseTS(s string) (int64, bool) {
	t, err := time.Parse("2006-01-02T15:04:05Z", s)
	if err != nil {
		return 0, false
	}
	return t.Unix(), true
}

func parseVal(s string) (float64, bool) {
	v, err := strconv.ParseFloat(s, 64)
	if err != nil {
		return 0, false
	}
	return v, true
}

// pointLine is a parsed "archive:<id> t:<time> val:<v>" line.
type pointLine struct {
	arch int
	t    int64
	v    float64
}

func pointLines(lines []outLine) ([]pointLine, string) {
	var out []pointLine
	for _, l := range lines {
		a, ok := l["archive"]
		if !ok {
			continue
		}
		if _, isDiff := l["srcVal"]; isDiff {
			continue
		}
		id, err := strconv.Atoi(a)
		t, ok1 := parseTS(l["t"])
		v, ok2 := parseVal(l["val"])
		if err != nil || !ok1 || !ok2 {
			return nil, "unparsable point line: " + l["_raw"]
		}
		out = append(out, pointLine{id, t, v})
	}
	return out, ""
}

// headerBlock renders a header the way the statement describes it, from the
// layout alone (independent of Header.String).
func headerBlock(l Layout) string {
	var b strings.Builder
	fmt.Fprintf(&b, "aggMethod:%s\taggMethodNum:%d\tmaxRetention:%s\txFileFactor:%s\tarchiveCount:%d\n",
		methodName(l.Method), l.Method, durString(l.MaxRet()), xffString(l.Xff), len(l.Archs))
	off := 16 + 12*len(l.Archs)
	for i, a := range l.Archs {
		fmt.Fprintf(&b, "archiveInfo:%d\tdurationPerPoint:%s\tnumberOfPoints:%d\toffset:%d\n", i, durString(a.S), a.N, off)
		off += 12 * int(a.N)
	}
	return b.String()
}

// durString prints a duration with the largest unit that divides it.
func durString(d int64) string {
	if d == 0 {
		return "0s"
	}
	for _, u := range []struct {
		n int64
		s string
	}{{365 * 86400, "y"}, {7 * 86400, "w"}, {86400, "d"}, {3600, "h"}, {60, "m"}} {
		if d%u.n == 0 {
			return fmt.Sprintf("%d%s", d/u.n, u.s)
		}
	}
	return fmt.Sprintf("%ds", d)
}
