package engine

import (
	"bytes"
	"encoding/json"
	"fmt"
	"math"
	"math/rand/v2"
	"os"
	"path/filepath"
	"runtime"
	"runtime/debug"
	"strings"
	"sync"
	"syscall"
	"time"

	"github.com/anishathalye/porcupine"
	wt "github.com/hnakamur/whispertool"

	"wsim/model"
)

// C13: exclusive access. 2-5 actors run sessions on one file under the seeded
// scheduler with statement-level preemption.

type C13Actor struct {
	Kind     string `json:"kind"` // writer reader abandoner badopen creator
	Sessions int    `json:"sessions"`
	SlowS    int64  `json:"slow_s,omitempty"`      // the session sleeps this many simulated seconds while it holds the handle
	Twice    bool   `json:"close_twice,omitempty"` // every handle is closed a second time at the start of the next session
	Hostile  string `json:"hostile,omitempty"`     // short badheader dir rocreate
}

type C13Case struct {
	Layout    Layout     `json:"layout"`
	Clock0    int64      `json:"clock0"`
	Actors    []C13Actor `json:"actors"`
	PreemptP  float64    `json:"preempt_p"`
	SchedSeed uint64     `json:"sched_seed"`
	Mode      string     `json:"mode,omitempty"`   // "": sessions on one file; "recreate": holders, followers and sessions creating the path again
	Deltas    []int64    `json:"deltas,omitempty"` // recreate: point-count change of the last archive per re-creating session
}

type c13Sim struct{}

func (c13Sim) Name() string { return "c13" }

func (c13Sim) Decode(raw json.RawMessage) (interface{}, error) {
	var c C13Case
	if err := json.Unmarshal(raw, &c); err != nil {
		return nil, err
	}
	return &c, nil
}

func (c13Sim) Gen(prop, tier string, r *rand.Rand) interface{} {
	var l Layout
	if chance(r, 0.7) {
		l = genLayout(r, "page")
	} else {
		l = genLayout(r, "small")
	}
	l.Method = 2
	c := &C13Case{Layout: l, Clock0: genClock0(r, l), SchedSeed: r.Uint64()}
	c.PreemptP = pick(r, 0.0, 0.002, 0.01, 0.03, 0.1)
	if prop == "C13" && chance(r, 0.08) {
		// the path is created again (open flags without O_EXCL, another file size)
		// while other sessions hold, or wait for, the file
		c.Mode = "recreate"
		c.Layout = genLayout(r, pick(r, "small", "small", "page"))
		nh := int(between(r, 1, 3))
		for i := 0; i < nh; i++ {
			c.Actors = append(c.Actors, C13Actor{Kind: "holder", Sessions: int(between(r, 1, 3)), SlowS: pick(r, int64(0), 0, 2, 5)})
		}
		nr := int(between(r, 1, 2))
		for i := 0; i < nr; i++ {
			c.Actors = append(c.Actors, C13Actor{Kind: "recreator", Sessions: 1})
			c.Deltas = append(c.Deltas, pick(r, int64(-1), 1, 2, 400, 2000))
		}
		r.Shuffle(len(c.Actors), func(i, j int) { c.Actors[i], c.Actors[j] = c.Actors[j], c.Actors[i] })
		return c
	}
	n := int(between(r, 2, 5))
	budget := 14
	for i := 0; i < n; i++ {
		a := C13Actor{Sessions: int(between(r, 1, 4))}
		switch x := r.IntN(10); {
		case x < 5:
			a.Kind = "writer"
		case x < 7:
			a.Kind = "reader"
			if prop == "C13" && chance(r, 0.3) {
				a.Kind = "clireader"
			}
		case x < 8 && chance(r, 0.7):
			a.Kind = "creator"
			a.Sessions = 1
		case x < 8:
			a.Kind = "abandoner"
		default:
			a.Kind = "badopen"
			a.Hostile = pick(r, "short", "badheader", "dir", "rocreate", "shortbody", "shortbody", "flock-eintr", "flock-enolck", "fsync-eio", "create-invalid")
			a.Sessions = int(between(r, 1, 2))
			if prop == "C05" {
				a.Kind, a.Hostile = "reader", ""
			}
		}
		if (a.Kind == "writer" || a.Kind == "reader") && chance(r, 0.15) {
			a.SlowS = pick(r, int64(2), 5, 30)
		}
		if (a.Kind == "writer" || a.Kind == "reader") && chance(r, 0.15) {
			a.Twice = true
		}
		if a.Sessions > budget {
			a.Sessions = budget
		}
		budget -= a.Sessions
		if a.Sessions > 0 {
			c.Actors = append(c.Actors, a)
		}
	}
	return c
}

type c13Op struct {
	client int
	kind   string // "w" read-modify-write, "r" read
	seen   int64  // generation observed
	call   int64
	ret    int64
}

func (c13Sim) Run(e *Env, ci interface{}) {
	c := ci.(*C13Case)
	if !c.Layout.Valid() || len(c.Actors) == 0 || len(c.Actors) > 8 || c.Clock0 < 946684800 || c.Clock0 > math.MaxUint32-3*400*86400 || c.PreemptP < 0 || c.PreemptP > 1 {
		e.Skip("invalid-case")
		return
	}
	tot := 0
	for _, a := range c.Actors {
		if a.Sessions < 0 || a.Sessions > 12 {
			e.Skip("invalid-case")
			return
		}
		tot += a.Sessions
	}
	if tot > 40 {
		e.Skip("invalid-case")
		return
	}
	// a leaked descriptor must not be closed by a finalizer in the middle of a
	// run: that would make the lock-lifetime probe depend on GC timing
	old := debug.SetGCPercent(-1)
	defer func() {
		debug.SetGCPercent(old)
		runtime.GC()
	}()

	if c.Mode == "recreate" {
		runC13Recreate(e, c)
		return
	}
	archs := toModelArchs(c.Layout)
	a0 := archs[0]
	SetClock(e, c.Clock0)
	now := Now()
	path := filepath.Join(e.Dir, "shared.wsp")
	stamp := func(db *wt.Whisper, gen int64) error {
		pts := make([]wt.Point, a0.N)
		for k := int64(0); k < a0.N; k++ {
			pts[k] = wt.Point{Time: wt.Timestamp(now - k*a0.S), Value: wt.Value(gen)}
		}
		return db.UpdatePointsForArchive(pts, 0, wt.Timestamp(now))
	}
	// uniform returns the generation if all slots of archive 0 hold it
	uniform := func(db *wt.Whisper) (int64, string) {
		raw, err := rawOf(db, 0)
		if err != nil {
			return 0, "raw read failed: " + err.Error()
		}
		g := raw[0].V
		for i, s := range raw {
			if s.V != g {
				return 0, fmt.Sprintf("slot 0 holds generation %v, slot %d holds %v", g, i, s.V)
			}
		}
		return int64(g), ""
	}
	db, err := c.Layout.create(path)
	if err != nil {
		e.Violate("C13.setup", "Create: %v", err)
		return
	}
	if err := stamp(db, 0); err != nil {
		e.Violate("C13.setup", "stamp: %v", err)
		return
	}
	db.Sync()
	db.Close()
	// reading commands address the file through a source base directory
	os.MkdirAll(filepath.Join(e.Dir, "src"), 0o755)
	os.Symlink(path, filepath.Join(e.Dir, "src", "shared.wsp"))
	// the process has used WithoutFlock before (an observer): options of one
	// handle must not stick to later handles
	if ob, oerr := wt.Open(path, wt.WithoutFlock()); oerr == nil {
		ob.Close()
	}

	s := NewSched(c.SchedSeed, nSites)
	s.PreemptP = c.PreemptP
	if e.SchedRec != nil && e.SchedRec.Replay {
		s.SetReplay(e.SchedRec.Choices, e.SchedRec.Preempts)
	}
	var mu sync.Mutex
	holders := 0
	var hist []c13Op
	completedWrites := int64(0)
	// The same simulation also serves C05 ("after Sync any other handle observes
	// the live handle's state") with an observer whose Open overlaps the
	// writer's session; in that role only the mixture oracle is evaluated.
	c05mode := e.Prop == "C05"
	viol := func(oracle, format string, args ...interface{}) {
		mu.Lock()
		if c05mode {
			if oracle == "C13.no-mixture" {
				e.Violate("C05.synced-state-seen-by-overlapping-open", format, args...)
			}
		} else {
			e.Violate(oracle, format, args...)
		}
		mu.Unlock()
		s.Abort("violation")
	}
	if c05mode {
		defer func() {
			if e.Viol != nil && !strings.HasPrefix(e.Viol.Oracle, "C05.") {
				e.Viol = nil
			}
			e.After = nil
		}()
	}
	s.LockTrace = func(ev string, g *G, fd int) {
		if ev == "wait" {
			mu.Lock()
			h := holders
			mu.Unlock()
			if h > 0 {
				e.Probe("opener-parked-while-a-handle-is-held")
			}
		}
	}
	openShared := func(name string) *wt.Whisper {
		db, err := wt.Open(path)
		if err != nil {
			if strings.Contains(err.Error(), "flock") || strings.Contains(err.Error(), "temporarily unavailable") {
				viol("C13.waits", "%s: Open returned a lock-contention error instead of waiting: %v", name, err)
			} else {
				viol("C13.open", "%s: Open of the shared file failed: %v", name, err)
			}
			return nil
		}
		mu.Lock()
		holders++
		h := holders
		mu.Unlock()
		if h > 1 {
			viol("C13.exclusive", "%s: Open returned while %d other default-option handle(s) on the same file are open", name, h-1)
			db.Close()
			return nil
		}
		return db
	}
	closeShared := func(db *wt.Whisper) {
		mu.Lock()
		holders--
		mu.Unlock()
		db.Close()
	}
	for ai, a := range c.Actors {
		ai, a := ai, a
		name := fmt.Sprintf("A%d", ai)
		s.Go(name, func() {
			var prev *wt.Whisper
			for k := 0; k < a.Sessions; k++ {
				closeAgain := func() {
					if a.Twice && prev != nil {
						// closing an old handle a second time - while a newer handle is
						// open, possibly on the same descriptor number - must not touch it
						prev.Close()
						prev = nil
						e.Note("handle-closed-twice")
					}
				}
				switch a.Kind {
				case "writer", "abandoner":
					call := int64(s.Event())
					db := openShared(name)
					if db == nil {
						return
					}
					closeAgain()
					g, bad := uniform(db)
					if bad != "" {
						closeShared(db)
						viol("C13.no-mixture", "%s (writer) saw a mixture right after Open: %s", name, bad)
						return
					}
					if err := stamp(db, g+1); err != nil {
						closeShared(db)
						viol("C13.session", "%s: update failed: %v", name, err)
						return
					}
					if a.SlowS > 0 {
						time.Sleep(time.Duration(a.SlowS) * time.Second)
						e.Fault("slow-session")
					}
					if a.Kind == "writer" {
						if err := db.Sync(); err != nil {
							closeShared(db)
							viol("C13.session", "%s: Sync failed: %v", name, err)
							return
						}
					} else {
						e.Fault("F2.abandon-session")
					}
					closeShared(db)
					prev = db
					ret := int64(s.Event())
					mu.Lock()
					if a.Kind == "writer" {
						hist = append(hist, c13Op{client: ai, kind: "w", seen: g, call: call, ret: ret})
						completedWrites++
					} else {
						hist = append(hist, c13Op{client: ai, kind: "r", seen: g, call: call, ret: ret})
					}
					mu.Unlock()
				case "reader":
					call := int64(s.Event())
					db := openShared(name)
					if db == nil {
						return
					}
					closeAgain()
					g, bad := uniform(db)
					// also through the fetch path
					vals, _, ferr := fetchWhole(db, 0, a0, now)
					if a.SlowS > 0 {
						time.Sleep(time.Duration(a.SlowS) * time.Second)
						e.Fault("slow-session")
					}
					closeShared(db)
					prev = db
					ret := int64(s.Event())
					if bad != "" {
						viol("C13.no-mixture", "%s (reader) saw a mixture of generations: %s", name, bad)
						return
					}
					if ferr == nil {
						for i, v := range vals {
							if !math.IsNaN(v) && int64(v) != g {
								viol("C13.no-mixture", "%s (reader): fetched value %d is generation %v, raw slots hold %d", name, i, v, g)
								return
							}
						}
					}
					mu.Lock()
					hist = append(hist, c13Op{client: ai, kind: "r", seen: g, call: call, ret: ret})
					mu.Unlock()
				case "clireader":
					// a reading command (view of archive 0) run while sessions are going
					// on: what it prints is the file as of a session boundary
					cm := Cmd{Kind: "view", Src: "shared.wsp", Archive: 0, NoHeader: true}
					command, tout, berr := buildCommand(e, cm, Now(), fmt.Sprintf("c13-%s-%d", name, k))
					if berr != nil {
						return
					}
					if tout != "" && tout != "-" {
						os.Remove(tout)
					}
					if xerr := command.Execute(); xerr != nil {
						viol("C13.session", "%s: view of the shared file failed: %v", name, xerr)
						return
					}
					seen := map[string]bool{}
					first := ""
					for _, l := range parseOut(string(readFile(tout))) {
						v, ok := l["val"]
						if !ok || v == "NaN" {
							continue
						}
						if first == "" {
							first = v
						}
						seen[v] = true
					}
					if len(seen) > 1 {
						viol("C13.no-mixture", "%s: a view command run while sessions were going on printed slots of %d different generations (%s and others): a mixture of pages from before and after a Sync", name, len(seen), first)
						return
					}
					if len(seen) == 1 {
						e.Probe("reading-command-during-sessions")
					} else {
						e.Note("reading-command-printed-no-value")
					}
				case "creator":
					// a session that starts with Create: the new file is held from
					// Create until Close like any other handle
					np := filepath.Join(e.Dir, fmt.Sprintf("created-%s.wsp", name))
					follower := fmt.Sprintf("%s.f", name)
					var cmu sync.Mutex
					cheld := false
					s.Go(follower, func() {
						for try := 0; try < 6; try++ {
							db2, oerr := wt.Open(np)
							if oerr != nil {
								// not there yet, or no header yet (Create has not synced)
								continue
							}
							cmu.Lock()
							h := cheld
							cmu.Unlock()
							db2.Close()
							if h {
								viol("C13.exclusive", "%s: Open of a file returned while the session that created it (Create ... Close) still holds its handle", follower)
								return
							}
						}
					})
					ndb, cerr := c.Layout.create(np)
					if cerr != nil {
						viol("C13.session", "%s: Create failed: %v", name, cerr)
						return
					}
					cmu.Lock()
					cheld = true
					cmu.Unlock()
					if err := ndb.UpdatePointsForArchive([]wt.Point{{Time: wt.Timestamp(now), Value: 1}}, 0, wt.Timestamp(now)); err != nil {
						viol("C13.session", "%s: update failed: %v", name, err)
					}
					ndb.Sync()
					// the session goes on for a while after its first Sync (the file
					// can be opened by others from now on; they must wait)
					if c.SchedSeed%2 == 0 {
						// the session also pauses (an opener that polls or sleeps gets
						// its turn while the creator still holds the file)
						time.Sleep(300 * time.Millisecond)
					}
					for j := 0; j < 3; j++ {
						ndb.FetchFromArchive(0, wt.Timestamp(now-1), wt.Timestamp(now), wt.Timestamp(now))
						ndb.UpdatePointsForArchive([]wt.Point{{Time: wt.Timestamp(now), Value: wt.Value(2 + j)}}, 0, wt.Timestamp(now))
					}
					ndb.Sync()
					cmu.Lock()
					cheld = false
					cmu.Unlock()
					ndb.Close()
					e.Probe("create-session-with-concurrent-opener")
				case "badopen":
					c13BadOpen(e, s, c, a, fmt.Sprintf("%s-%d", name, k), viol)
					if e.Failed() {
						return
					}
				}
			}
		})
	}
	s.Install()
	s.Run()
	Uninstall()
	e.OutSched = &SchedRec{Seed: c.SchedSeed, PreemptP: c.PreemptP, Choices: s.Choices, Preempts: s.Preempts}
	e.Stats.Yields += int64(s.Yields)
	e.Stats.Decisions += int64(s.Decisions)
	for i, n := range s.Cover {
		if n > 0 && i < len(e.Cover) {
			e.Cover[i] += n
		}
	}
	if s.Switches > 0 {
		e.Stats.Interleave[s.Signature()] = true
	}
	if s.LockWaits > 0 {
		e.Probe("lock-contention")
		e.Fault("F8.lock-contention")
	}
	if len(s.Preempts) > 0 {
		e.Fault("F9.preemption")
		e.Stats.Faults["F9.preemption-points"] += int64(len(s.Preempts))
	}
	if len(s.Panics) > 0 && !e.Failed() {
		e.Violate("C13.panic", "%s", s.Panics[0])
	}
	if s.Deadlock && !e.Failed() {
		e.Violate("C13.liveness", "quiescence with parked goroutines and nobody runnable: an opener waits for a lock that no live handle holds")
	}
	if e.Failed() {
		return
	}
	// (iii) final counter
	fdb, err := wt.Open(path, wt.WithoutFlock())
	if err != nil {
		e.Violate("C13.final", "final Open failed: %v", err)
		return
	}
	g, bad := uniform(fdb)
	fdb.Close()
	if bad != "" {
		e.Violate("C13.no-mixture", "final state is a mixture: %s", bad)
		return
	}
	if g != completedWrites {
		e.Violate("C13.lost-update", "%d writer sessions completed but the file holds generation %d", completedWrites, g)
		return
	}
	// (iv) linearizability of the session history, checked after the bubble
	h := append([]c13Op(nil), hist...)
	e.After = append(e.After, func() {
		ops := make([]porcupine.Operation, len(h))
		for i, o := range h {
			ops[i] = porcupine.Operation{ClientId: o.client, Input: o.kind, Output: o.seen, Call: o.call, Return: o.ret}
		}
		m := porcupine.Model{
			Init: func() interface{} { return int64(0) },
			Step: func(state, input, output interface{}) (bool, interface{}) {
				st := state.(int64)
				if output.(int64) != st {
					return false, st
				}
				if input.(string) == "w" {
					return true, st + 1
				}
				return true, st
			},
		}
		if len(ops) > 0 && len(ops) <= 40 {
			res := porcupine.CheckOperationsTimeout(m, ops, 30*time.Second)
			if res == porcupine.Illegal {
				e.Violate("C13.linearizable", "the session history (%d sessions) is not linearizable against a read-modify-write register", len(ops))
			} else if res == porcupine.Unknown {
				e.Skip("porcupine-timeout")
			}
		}
	})
	_ = model.Floor
}

// c13BadOpen: an Open/Create that fails after the descriptor was obtained must
// leave the file neither open nor locked.
func c13BadOpen(e *Env, s *Sched, c *C13Case, a C13Actor, tag string, viol func(string, string, ...interface{})) {
	p := filepath.Join(e.Dir, "bad-"+tag+".wsp")
	var err error
	var what string
	switch a.Hostile {
	case "short":
		os.WriteFile(p, []byte{0, 0, 0, 1, 0}, 0o644)
		_, err = wt.Open(p)
		what = "Open of a 5-byte file"
	case "badheader":
		b := make([]byte, 16+12+12*4)
		b[3] = 99 // aggregation method 99
		os.WriteFile(p, b, 0o644)
		_, err = wt.Open(p)
		what = "Open of a file with an invalid header"
	case "shortbody":
		// valid header, body cut short: rejected after the header was read
		q := p + ".full"
		if db, cerr := c.Layout.create(q); cerr == nil {
			db.Sync()
			db.Close()
			b := readFile(q)
			os.WriteFile(p, b[:len(b)-7], 0o644)
		}
		_, err = wt.Open(p)
		what = "Open of a file shorter than its header requires"
	case "flock-eintr", "flock-enolck":
		// a valid file; the lock request of this Open fails (interrupted system
		// call, no locks available)
		if db, cerr := c.Layout.create(p, wt.WithoutFlock()); cerr == nil {
			db.Sync()
			db.Close()
		}
		me := s.Current()
		ferr := error(syscall.EINTR)
		if a.Hostile == "flock-enolck" {
			ferr = syscall.ENOLCK
		}
		fired := false
		s.FlockFault = func(g *G, fd int) error {
			if g == me && !fired {
				fired = true
				return ferr
			}
			return nil
		}
		var hdb *wt.Whisper
		hdb, err = wt.Open(p)
		s.FlockFault = nil
		if !fired {
			if hdb != nil {
				hdb.Close()
			}
			e.Skip("flock-fault-not-reached")
			return
		}
		what = "Open whose lock request failed with " + ferr.Error()
		if err == nil && hdb != nil {
			// the Open went on (an interrupted request may be repeated): the handle
			// it returned must hold the lock like any other default-option handle
			locked := true
			if f, oerr := os.OpenFile(p, os.O_RDONLY, 0); oerr == nil {
				if syscall.Flock(int(f.Fd()), syscall.LOCK_EX|syscall.LOCK_NB) == nil {
					locked = false
					syscall.Flock(int(f.Fd()), syscall.LOCK_UN)
				}
				f.Close()
			}
			hdb.Close()
			e.Fault("F11.failing-lock-request/" + a.Hostile)
			if !locked {
				viol("C13.exclusive", "%s returned a handle all the same, and the file is not locked: a non-blocking exclusive flock by another descriptor succeeds while the handle is open", what)
				return
			}
			e.Probe("lock-request-repeated-after-a-failure")
			return
		}
	case "fsync-eio":
		// a disk error: every fsync of this session fails. Sync reports it, and
		// the Close that follows must still release descriptor and lock
		db, cerr := c.Layout.create(p)
		if cerr != nil {
			return
		}
		me := s.Current()
		hit := false
		wt.VerifFsync = func() error {
			if s.Current() == me {
				hit = true
				return syscall.EIO
			}
			return nil
		}
		err = db.Sync()
		cerr2 := db.Close()
		wt.VerifFsync = nil
		if !hit {
			e.Skip("fsync-fault-not-reached")
			return
		}
		e.Fault("F12.failing-fsync")
		if err == nil {
			viol("C13.session", "Sync returned nil although the fsync of the file failed with EIO")
			return
		}
		_ = cerr2
		what = "Sync whose fsync failed with EIO, then Close"
	case "create-invalid":
		// Create refused because of its arguments (xFilesFactor out of range, an
		// archive list whose retentions do not grow): nothing may stay open or locked
		if c.SchedSeed%2 == 0 {
			_, err = wt.Create(p, c.Layout.wtList(), wt.Sum, 2.5)
			what = "Create with xFilesFactor 2.5"
		} else {
			bad := wt.ArchiveInfoList{wt.NewArchiveInfo(10, 100), wt.NewArchiveInfo(20, 2)}
			_, err = wt.Create(p, bad, wt.Sum, 0.5)
			what = "Create with a second archive shorter than the first"
		}
	case "dir":
		os.Mkdir(p, 0o755)
		_, err = wt.Open(p, wt.WithOpenFileFlag(os.O_RDONLY))
		what = "Open of a directory (read-only flag)"
	case "rocreate":
		_, err = wt.Create(p, c.Layout.wtList(), wt.Sum, 0.5, wt.WithOpenFileFlag(os.O_RDONLY|os.O_CREATE|os.O_EXCL))
		what = "Create whose Truncate fails on a read-only descriptor"
	default:
		return
	}
	if err == nil {
		e.Skip("hostile-open-did-not-fail")
		return
	}
	e.Fault("F8.failing-open/" + a.Hostile)
	// (v) neither open nor locked
	if n := fdCount(p); n > 0 {
		oracle := "C13.failed-open-keeps-descriptor"
		if a.Hostile == "fsync-eio" {
			oracle = "C13.closed-handle-keeps-descriptor"
		}
		viol(oracle, "%s failed (%v) but the process still holds %d descriptor(s) on the path", what, trunc(err.Error(), 80), n)
		return
	}
	f, oerr := os.OpenFile(p, os.O_RDONLY, 0)
	if oerr == nil {
		ferr := syscall.Flock(int(f.Fd()), syscall.LOCK_EX|syscall.LOCK_NB)
		f.Close()
		if ferr != nil {
			viol("C13.failed-open-keeps-lock", "%s failed (%v) but a non-blocking flock on the path is refused: %v", what, trunc(err.Error(), 80), ferr)
			return
		}
	}
	e.Probe("failed-open-probed/" + a.Hostile)
	// a later Open of the same path must not be blocked by the failed one
	if a.Hostile == "flock-eintr" || a.Hostile == "flock-enolck" {
		// the same path opens normally afterwards
		db2, oerr := wt.Open(p)
		if oerr != nil {
			viol("C13.later-open", "Open after an Open whose lock request had failed: %v", oerr)
			return
		}
		db2.Close()
	}
	if a.Hostile == "short" || a.Hostile == "badheader" || a.Hostile == "shortbody" {
		q := p + ".valid"
		db, cerr := c.Layout.create(q)
		if cerr == nil {
			db.Sync()
			db.Close()
			os.WriteFile(p, readFile(q), 0o644) // same inode as the failed Open
			db2, oerr := wt.Open(p)
			if oerr != nil {
				viol("C13.later-open", "Open after a failed Open of the same (now valid) path failed: %v", oerr)
				return
			}
			db2.Close()
		}
	}
}

// runC13Recreate: a never-written file is held by read-only sessions while
// other sessions create the path again with another layout (Create with open
// flags O_RDWR|O_CREATE, then Sync, then Close). A session that holds the file
// and does not write must find the file's bytes unchanged when it closes; an
// Open that had to wait must succeed and see one complete file: a header whose
// layout is one of those ever requested and a file length that fits it.
func runC13Recreate(e *Env, c *C13Case) {
	if len(c.Deltas) > 4 {
		e.Skip("invalid-case")
		return
	}
	SetClock(e, c.Clock0)
	path := filepath.Join(e.Dir, "shared.wsp")
	db, err := c.Layout.create(path)
	if err != nil {
		e.Violate("C13.setup", "Create: %v", err)
		return
	}
	db.Sync()
	db.Close()
	sizeOf := func(l Layout) int64 {
		n := int64(16 + 12*len(l.Archs))
		for _, a := range l.Archs {
			n += 12 * a.N
		}
		return n
	}
	// the layouts that will ever be requested for the path
	layouts := []Layout{c.Layout}
	cur := c.Layout
	var recreated []Layout
	for _, d := range c.Deltas {
		l2 := Layout{Method: cur.Method, Xff: cur.Xff, Archs: append([]Arch(nil), c.Layout.Archs...)}
		l2.Archs[len(l2.Archs)-1].N += d
		if !l2.Valid() || d == 0 {
			e.Skip("invalid-case")
			return
		}
		recreated = append(recreated, l2)
		layouts = append(layouts, l2)
	}
	s := NewSched(c.SchedSeed, nSites)
	s.PreemptP = c.PreemptP
	if e.SchedRec != nil && e.SchedRec.Replay {
		s.SetReplay(e.SchedRec.Choices, e.SchedRec.Preempts)
	}
	var mu sync.Mutex
	viol := func(oracle, format string, args ...interface{}) {
		mu.Lock()
		e.Violate(oracle, format, args...)
		mu.Unlock()
		s.Abort("violation")
	}
	ri := 0
	for ai, a := range c.Actors {
		ai, a := ai, a
		name := fmt.Sprintf("A%d", ai)
		switch a.Kind {
		case "holder":
			s.Go(name, func() {
				for k := 0; k < a.Sessions; k++ {
					db, err := wt.Open(path)
					if err != nil {
						viol("C13.open", "%s: Open of the file failed although every session that created it synced a complete file before closing: %v", name, err)
						return
					}
					before := readFile(path)
					got := db.ArchiveInfoList()
					known := false
					for _, l := range layouts {
						if got.Equal(l.wtList()) {
							known = true
							if int64(len(before)) != sizeOf(l) {
								db.Close()
								viol("C13.no-mixture", "%s: holds a handle whose header says %s (%d bytes) but the file has %d bytes: header and length come from two different sessions", name, l, sizeOf(l), len(before))
								return
							}
						}
					}
					if !known {
						db.Close()
						viol("C13.no-mixture", "%s: the header read after Open (%v) is none of the layouts ever requested for the path", name, got)
						return
					}
					if a.SlowS > 0 {
						time.Sleep(time.Duration(a.SlowS) * time.Second)
					}
					now := Now()
					if _, ferr := db.FetchFromArchive(0, wt.Timestamp(now-1), wt.Timestamp(now), wt.Timestamp(now)); ferr != nil {
						db.Close()
						viol("C13.no-mixture", "%s: fetch from the held, never-written file failed: %v", name, ferr)
						return
					}
					after := readFile(path)
					db.Close()
					if !bytes.Equal(before, after) {
						viol("C13.exclusive", "%s: the file changed (length %d -> %d, first difference at offset %d) while this session held its handle and wrote nothing", name, len(before), len(after), firstDiff(before, after))
						return
					}
					e.Probe("held-file-unchanged-while-the-path-is-created-again")
				}
			})
		case "recreator":
			if ri >= len(recreated) {
				e.Skip("invalid-case")
				return
			}
			l2 := recreated[ri]
			ri++
			s.Go(name, func() {
				db, err := l2.create(path, wt.WithOpenFileFlag(os.O_RDWR|os.O_CREATE))
				if err != nil {
					viol("C13.open", "%s: Create (O_RDWR|O_CREATE) over the existing file failed: %v", name, err)
					return
				}
				if err := db.Sync(); err != nil {
					db.Close()
					viol("C13.session", "%s: Sync failed: %v", name, err)
					return
				}
				db.Close()
				e.Fault("path-created-again")
			})
		default:
			e.Skip("invalid-case")
			return
		}
	}
	s.Install()
	s.Run()
	Uninstall()
	e.OutSched = &SchedRec{Seed: 0, PreemptP: s.PreemptP, Choices: s.Choices, Preempts: s.Preempts}
	e.Stats.Yields += int64(s.Yields)
	e.Stats.Decisions += int64(s.Decisions)
	if s.Switches > 0 {
		e.Stats.Interleave[s.Signature()] = true
	}
	if s.LockWaits > 0 {
		e.Probe("lock-contention")
		e.Fault("F8.lock-contention")
	}
	if len(s.Panics) > 0 && !e.Failed() {
		e.Violate("C13.panic", "%s", s.Panics[0])
	}
	if s.Deadlock && !e.Failed() {
		e.Violate("C13.liveness", "quiescence with parked goroutines and nobody runnable: an opener waits for a lock that no live handle holds")
	}
}
