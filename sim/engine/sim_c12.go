package engine

import (
	"bytes"
	"encoding/json"
	"fmt"
	"math"
	"math/rand/v2"
	"net/http"
	"os"
	"path/filepath"
	"sort"
	"strings"
)

// C12: remote/local transparency. Every read command of a run is executed
// twice at the same simulated instant: against the directory and against
// http://sim/ served by the real handlers over the simulated wire.

type C12Fault struct {
	Cmd  int    `json:"cmd"`  // index of the command whose first request is faulted
	Kind string `json:"kind"` // truncate close status garbage
	At   int    `json:"at"`
}

type C12Case struct {
	Layout    Layout      `json:"layout"`
	Clock0    int64       `json:"clock0"`
	Files     []WFile     `json:"files"`
	Cmds      []Cmd       `json:"cmds"`
	Fault     *C12Fault   `json:"fault,omitempty"`
	SchedSeed uint64      `json:"sched_seed"`
	Adv       []int64     `json:"adv,omitempty"` // clock advance before command i
	PreemptP  float64     `json:"preempt_p,omitempty"`
	Changes   []C12Change `json:"changes,omitempty"` // the served tree changes before command Cmd
}

// C12Change: a file appears in, or disappears from, the served tree between
// two commands (two or more levels below the base).
type C12Change struct {
	Cmd    int    `json:"cmd"`
	Remove bool   `json:"remove,omitempty"`
	Rel    string `json:"rel"`
}

type c12Sim struct{}

func (c12Sim) Name() string { return "c12" }

func (c12Sim) Decode(raw json.RawMessage) (interface{}, error) {
	var c C12Case
	if err := json.Unmarshal(raw, &c); err != nil {
		return nil, err
	}
	return &c, nil
}

func (c12Sim) Gen(prop, tier string, r *rand.Rand) interface{} {
	l := genLayout(r, pick(r, "tiny", "small", "small", "edge", "four"))
	huge := r.IntN(150) == 0
	if huge {
		// a response of more than a megabyte: one archive of 140 000 - 175 000 points
		l = Layout{Archs: []Arch{{1, between(r, 140000, 175000)}}, Method: 1, Xff: 0.5}
	}
	c := &C12Case{Layout: l, Clock0: genClock0(r, l), SchedSeed: r.Uint64()}
	if huge {
		c.Files = []WFile{{Base: "src", Rel: "top.wsp", Layout: l, Fills: genFills(r, l, 1, 0.0001)}}
		c.Cmds = []Cmd{{Kind: pick(r, "view", "view-raw"), Src: "top.wsp", Archive: -1}}
		c.Adv = []int64{0}
		return c
	}
	rels := []string{"top.wsp", "grp/it0/a.wsp", "grp/it0/b.wsp", "grp/it1/a.wsp", "grp/it1/c.wsp", "x y/sp ace.wsp", "p+q/cpu+1&2=3.wsp"}
	// a directory and a file whose names are drawn from characters that are
	// legal in file names but special somewhere between a command line, a URL,
	// a query string and a path (no glob meta characters, no line breaks)
	oddDir, oddFile := oddName(r), oddName(r)+".wsp"
	rels = append(rels, oddDir+"/"+oddFile)
	// sibling directories of which one name is a prefix of the others and the
	// next character sorts before the path separator
	rels = append(rels, "web/x.wsp", "web-01/x.wsp", "web+c/x.wsp")
	for _, rel := range rels {
		if chance(r, 0.85) {
			c.Files = append(c.Files, WFile{Base: "src", Rel: rel, Layout: l, Fills: genFills(r, l, 1, 0.7), Link: chance(r, 0.08)})
		}
	}
	if len(c.Files) == 0 {
		c.Files = append(c.Files, WFile{Base: "src", Rel: "top.wsp", Layout: l, Fills: genFills(r, l, 1, 0.7)})
	}
	// destination twins for diff and copy
	for _, f := range append([]WFile(nil), c.Files...) {
		if chance(r, 0.6) {
			d := WFile{Base: "dst", Rel: f.Rel, Layout: l}
			switch r.IntN(3) {
			case 0:
				d.Fills = cloneFills(f.Fills)
			case 1:
				d.Fills = genFills(r, l, 1, 0.5)
			}
			c.Files = append(c.Files, d)
		}
	}
	n := len(l.Archs)
	ncmd := int(between(r, 2, 6))
	fileChoices := append(append([]string{}, rels...), "missing.wsp", "grp/it0/none.wsp", "nodir/a.wsp", "p+q/cpu+1&2=3.wsp", oddDir+"/"+oddFile, oddDir+"/"+oddFile)
	for i := 0; i < ncmd; i++ {
		cm := Cmd{Archive: genArchiveSel(r, n), NoHeader: chance(r, 0.3), ViaParse: chance(r, 0.2)}
		if chance(r, 0.05) {
			cm.Archive = pick(r, -2, n, n+1)
		}
		switch r.IntN(9) {
		case 0, 1:
			cm.Kind = "view"
			cm.Src = fileChoices[r.IntN(len(fileChoices))]
		case 2:
			cm.Kind = "view-raw"
			cm.Src = fileChoices[r.IntN(len(fileChoices))]
			cm.Sort = chance(r, 0.5)
		case 3, 4:
			cm.Kind = "sum"
			cm.Item = pick(r, "grp/it*", "grp/it0", "grp/*", "nomatch*", "grp/it1", "*", "x*", "p+q", "p+*")
			cm.Src = pick(r, "*.wsp", "a.wsp", "zz*.wsp", "[ab].wsp", "cpu+*.wsp", "cpu+1&2=3.wsp")
			if chance(r, 0.12) {
				cm.Item = pick(r, oddDir, oddDir[:1]+"*")
				cm.Src = pick(r, "*.wsp", oddFile, oddFile[:1]+"*.wsp")
			}
			if chance(r, 0.08) {
				cm.Item, cm.Src = pick(r, "web*", "w*"), pick(r, "x.wsp", "*.wsp")
			}
			if chance(r, 0.04) {
				// a malformed pattern: refused alike by a directory and by a server
				if chance(r, 0.5) {
					cm.Item = pick(r, "grp/it[", "[")
				} else {
					cm.Src = pick(r, "a[.wsp", "[")
				}
			}
		case 5, 6:
			cm.Kind = "diff"
			cm.Src = pick(r, "top.wsp", "grp/it0/a.wsp", "grp/it*/a.wsp", "grp/it0/*.wsp", "missing.wsp", "none*/x.wsp", "*.wsp", "*/*.wsp", "x*/*.wsp", "p+q/cpu+1&2=3.wsp", "p+*/*.wsp")
			if chance(r, 0.12) {
				cm.Src = pick(r, oddDir+"/"+oddFile, oddDir+"/*.wsp", oddDir[:1]+"*/"+oddFile[:1]+"*.wsp")
			}
			if chance(r, 0.08) {
				cm.Src = pick(r, "web*/x.wsp", "w*/*.wsp")
			}
			if chance(r, 0.04) {
				cm.Src = pick(r, "grp/it[/a.wsp", "grp/it0/[.wsp")
			}
			if chance(r, 0.3) {
				// both bases are the served tree: two requests overlap inside one command
				cm.DstIsSrc = true
				if !hasMeta(cm.Src) && chance(r, 0.7) {
					// two different files of the served tree
					cm.Dest = pick(r, "grp/it0/b.wsp", "grp/it1/a.wsp", "top.wsp", "grp/it1/c.wsp")
				}
			}
		case 7, 8:
			cm.Kind = "copy"
			cm.Create = l
			cm.CopyNaN = chance(r, 0.5)
			cm.Src = pick(r, "top.wsp", "grp/it0/a.wsp", "grp/it*/a.wsp", "grp/it1/*.wsp", "missing.wsp", "none*/x.wsp", "x*/*.wsp")
			if chance(r, 0.1) {
				cm.Src = pick(r, oddDir+"/"+oddFile, oddDir+"/*.wsp")
			}
		}
		genWindow(r, l, &cm)
		if i > 0 && chance(r, 0.12) {
			ch := C12Change{Cmd: i, Rel: pick(r, "grp/it0/zz-new.wsp", "grp/it1/a.wsp", "grp/it2/a.wsp", "web/y.wsp", "grp/it0/a.wsp")}
			ch.Remove = chance(r, 0.4)
			c.Changes = append(c.Changes, ch)
		}
		c.Cmds = append(c.Cmds, cm)
		c.Adv = append(c.Adv, pick(r, int64(0), 0, 1, l.Archs[0].S, between(r, 1, l.MaxRet())))
	}
	if chance(r, 0.4) {
		c.PreemptP = pick(r, 0.005, 0.02, 0.05)
	}
	if chance(r, 0.25) {
		c.Fault = &C12Fault{Cmd: r.IntN(ncmd), Kind: pick(r, "truncate", "close", "status", "garbage"), At: int(between(r, 0, 200))}
	}
	return c
}

// treeBytes returns rel path -> contents of every regular file below dir.
func treeBytes(dir string) map[string][]byte {
	out := map[string][]byte{}
	filepath.Walk(dir, func(p string, info os.FileInfo, err error) error {
		if err == nil && info.Mode().IsRegular() {
			rel, _ := filepath.Rel(dir, p)
			out[rel] = readFile(p)
		}
		return nil
	})
	return out
}

func sameTree(a, b map[string][]byte) string {
	var keys []string
	for k := range a {
		keys = append(keys, k)
	}
	for k := range b {
		if _, ok := a[k]; !ok {
			keys = append(keys, k)
		}
	}
	sort.Strings(keys)
	for _, k := range keys {
		x, ok1 := a[k]
		y, ok2 := b[k]
		if !ok1 || !ok2 {
			return fmt.Sprintf("%s exists only on one side", k)
		}
		if !bytes.Equal(x, y) {
			return fmt.Sprintf("%s differs at offset %d", k, firstDiff(x, y))
		}
	}
	return ""
}

func copyTree(dst, src string) {
	for rel, b := range treeBytes(src) {
		p := filepath.Join(dst, rel)
		os.MkdirAll(filepath.Dir(p), 0o755)
		os.WriteFile(p, b, 0o644)
	}
}

// normaliseOut removes the parts of a text output that name the base.
func normaliseOut(s, dir string, bothMissing bool) string {
	s = strings.ReplaceAll(s, filepath.Join(dir, "src")+"/", "<base>/")
	s = strings.ReplaceAll(s, simURL+"/", "<base>/")
	// the err: line of a missing file carries the cause text of the local
	// system call or of the client-side reconstruction; only the side counts,
	// and when both sides are missing even the side is schedule-dependent
	lines := strings.Split(s, "\n")
	for i, l := range lines {
		if strings.HasPrefix(l, "err:") {
			side := ""
			if j := strings.Index(l, "\tsrcOrDest:"); j >= 0 && !bothMissing {
				side = l[j:]
			}
			lines[i] = "err:<cause>" + side
		}
	}
	return strings.Join(lines, "\n")
}

func (c12Sim) Run(e *Env, ci interface{}) {
	c := ci.(*C12Case)
	if !c.Layout.Valid() || c.Clock0 < 946684800 || c.Clock0 > math.MaxUint32-3*400*86400 || len(c.Files) > 30 || len(c.Cmds) > 12 {
		e.Skip("invalid-case")
		return
	}
	for _, f := range c.Files {
		if !f.Layout.Valid() || (f.Base != "src" && f.Base != "dst") || f.Rel == "" || len(f.Fills) > 12 || f.Layout.String() != c.Layout.String() {
			// every file of a C12 world has the case's layout (the oracles rely on it)
			e.Skip("invalid-case")
			return
		}
	}
	for _, cm := range c.Cmds {
		switch cm.Kind {
		case "view", "view-raw", "sum", "diff", "copy":
		default:
			e.Skip("invalid-case")
			return
		}
		if cm.Kind == "copy" && (!cm.Create.Valid() || cm.Create.String() != c.Layout.String()) {
			e.Skip("invalid-case")
			return
		}
	}
	SetClock(e, c.Clock0)
	os.MkdirAll(filepath.Join(e.Dir, "src"), 0o755)
	os.MkdirAll(filepath.Join(e.Dir, "dst"), 0o755)
	for _, f := range c.Files {
		if err := buildFile(e, f); err != nil {
			e.Skip("world-build-failed")
			return
		}
	}
	if c.PreemptP < 0 || c.PreemptP > 0.5 {
		e.Skip("invalid-case")
		return
	}
	r := newCliRunner(e, c.SchedSeed, c.PreemptP, true)
	defer r.close()
	faultArmed := -1
	if c.Fault != nil {
		fc := *c.Fault
		r.srv.fault = func(req *http.Request) *wireFault {
			if faultArmed != fc.Cmd {
				return nil
			}
			faultArmed = -2 // only the first request of that command
			e.Fault("F7.wire-" + fc.Kind)
			switch fc.Kind {
			case "truncate":
				return &wireFault{Kind: "truncate", At: fc.At}
			case "close":
				return &wireFault{Kind: "close"}
			case "status":
				return &wireFault{Kind: "status", Code: 500}
			case "garbage":
				return &wireFault{Kind: "garbage", Body: bytes.Repeat([]byte{0xde, 0xad, 0xbe, 0xef}, 1+fc.At%8)}
			}
			return nil
		}
	}
	dstL := filepath.Join(e.Dir, "dst")
	dstSave := filepath.Join(e.Dir, "dst-save")
	files := append([]WFile(nil), c.Files...) // the tree as it is now
	for i, cm := range c.Cmds {
		if e.Failed() {
			return
		}
		e.Op(i)
		if i < len(c.Adv) && c.Adv[i] > 0 {
			Advance(e, c.Adv[i])
			e.Fault("F4.clock-advance")
		}
		for _, ch := range c.Changes {
			if ch.Cmd != i || ch.Rel == "" || strings.Contains(ch.Rel, "..") || filepath.IsAbs(ch.Rel) {
				continue
			}
			// the served tree changes between two commands
			idx := -1
			for k, f := range files {
				if f.Base == "src" && f.Rel == ch.Rel {
					idx = k
				}
			}
			if ch.Remove && idx >= 0 {
				os.Remove(filepath.Join(e.Dir, "src", ch.Rel))
				files = append(files[:idx:idx], files[idx+1:]...)
				e.Fault("served-tree-changed/file-removed")
			} else if !ch.Remove && idx < 0 {
				nf := WFile{Base: "src", Rel: ch.Rel, Layout: c.Layout, Fills: []WFill{{ID: 0, Pts: []LibPt{{Age: 0, V: FV(float64(i) + 0.5)}}}}}
				if buildFile(e, nf) == nil {
					files = append(files, nf)
					e.Fault("served-tree-changed/file-added")
				}
			}
		}
		// the destination tree is reset between the local and the remote run
		os.RemoveAll(dstSave)
		copyTree(dstSave, dstL)
		lc := cm
		lc.SrcRemote = false
		lres := r.run1(lc, fmt.Sprintf("l%d", i))
		ltree := treeBytes(dstL)
		os.RemoveAll(dstL)
		os.MkdirAll(dstL, 0o755)
		copyTree(dstL, dstSave)
		rc := cm
		rc.SrcRemote = true
		faulted := c.Fault != nil && c.Fault.Cmd == i
		if faulted {
			faultArmed = i
		}
		reqsBefore := r.srv.Reqs
		rres := r.run1(rc, fmt.Sprintf("r%d", i))
		rtree := treeBytes(dstL)
		fired := faulted && faultArmed == -2
		faultArmed = -1
		desc := fmt.Sprintf("command %d (%s src=%q item=%q archive=%d window from=%v/%d until=%v/%d)", i, cm.Kind, cm.Src, cm.Item, cm.Archive, cm.HasFrom, cm.FromAge, cm.HasUntil, cm.UntilAge)
		if len(lres.panics) > 0 {
			e.Skip("foreign-panic-in-local-command")
			continue
		}
		if rres.aborted && !lres.aborted {
			e.Violate("C12.equal-outcome", "%s: the command against the server URL never returned (a handler waits for a lock that an earlier request of this server never released, or the wire stalled), the same command on the directory ended with %s;%s", desc, outcomeClass(lres.err), " abort reason: "+r.s.AbortWhy+r.s.DeadlockInfo)
			return
		}
		if lres.aborted || rres.aborted {
			return
		}
		lclass, rclass := outcomeClass(lres.err), outcomeClass(rres.err)
		bothMissing := false
		if cm.Kind == "diff" || cm.Kind == "copy" {
			// when both errgroup workers of diff/copy fail for different
			// reasons (a missing file on one side, an out-of-range archive id
			// or an inverted window on the other) the error that wins is
			// schedule-dependent, locally as well as remotely
			rels := []string{cm.Src}
			if hasMeta(cm.Src) {
				rels = matchGlob(cm.Src, filesOf(&CliCase{Files: files}, "src"), true)
			}
			wf, wu := cm.window(Now())
			nArch := len(c.Layout.Archs)
			if cm.Kind == "copy" && len(cm.Create.Archs) < nArch {
				nArch = len(cm.Create.Archs) // a destination created by the command has the requested layout
			}
			argErr := !(cm.Archive == -1 || (cm.Archive >= 0 && cm.Archive < nArch)) || wf > wu
			for _, rel := range rels {
				_, e1 := os.Stat(filepath.Join(e.Dir, "src", rel))
				drel := rel
				if cm.Dest != "" && !hasMeta(cm.Src) {
					drel = cm.Dest
				}
				_, e2 := os.Stat(filepath.Join(dstSave, drel))
				if cm.DstIsSrc {
					_, e2 = os.Stat(filepath.Join(e.Dir, "src", drel))
				}
				srcMissing, dstMissing := e1 != nil, e2 != nil
				if cm.Kind == "diff" && ((argErr && (srcMissing || dstMissing)) || (srcMissing && dstMissing)) {
					bothMissing = true
				}
				if cm.Kind == "copy" && argErr && srcMissing {
					bothMissing = true
				}
			}
		}
		lout, rout := normaliseOut(lres.out, e.Dir, bothMissing), normaliseOut(rres.out, e.Dir, bothMissing)
		equal := lclass == rclass && lout == rout && sameTree(ltree, rtree) == "" && len(rres.panics) == 0 && len(r.srv.Panics) == 0
		if fired {
			// a faulted request must end in an error or be harmless, never in different data
			if !equal && rres.err == nil {
				e.Violate("C12.fault-silent", "%s: the response was damaged on the wire (%s) and the command still reported success with a different result", desc, c.Fault.Kind)
				return
			}
			e.Probe("faulted-request-ended-in-error-or-equal")
			r.srv.Panics = nil
			// bounded recovery: the same command again, fault-free, gives the local answer
			os.RemoveAll(dstL)
			os.MkdirAll(dstL, 0o755)
			copyTree(dstL, dstSave)
			rres = r.run1(rc, fmt.Sprintf("r%db", i))
			rtree = treeBytes(dstL)
			rclass = outcomeClass(rres.err)
			rout = normaliseOut(rres.out, e.Dir, bothMissing)
		}
		if os.Getenv("WSIM_DEBUG") != "" {
			var lk, rk []string
			for k := range ltree {
				lk = append(lk, k)
			}
			for k := range rtree {
				rk = append(rk, k)
			}
			sort.Strings(lk)
			sort.Strings(rk)
			fmt.Fprintf(os.Stderr, "DEBUG ltree %v rtree %v\n", lk, rk)
			fmt.Fprintf(os.Stderr, "DEBUG cmd %d: local %s (%v) remote %s (%v) fired=%v\nLOUT %q\nROUT %q\n", i, lclass, lres.err, rclass, rres.err, fired, lout, rout)
		}
		if lclass == "parse-error" {
			e.Skip("rejected-by-flag-parser")
			continue
		}
		if len(rres.panics) > 0 {
			e.Violate("C12.equal-outcome", "%s: the remote run panicked: %s (local outcome: %s)", desc, rres.panics[0], lclass)
			return
		}
		if len(r.srv.Panics) > 0 {
			e.Violate("C12.equal-outcome", "%s: %s (local outcome: %s)", desc, r.srv.Panics[0], lclass)
			return
		}
		if bothMissing && (lclass != rclass || lout != rout) {
			e.Skip("both-workers-fail-differently")
			continue
		}
		if lclass != rclass {
			e.Violate("C12.equal-outcome", "%s: local outcome %s (%v), remote outcome %s (%v)", desc, lclass, lres.err, rclass, rres.err)
			return
		}
		if lout != rout {
			e.Violate("C12.equal-output", "%s: text output differs between the directory and the server URL: local %q, remote %q", desc, diffSnippet(lout, rout), diffSnippet(rout, lout))
			return
		}
		if d := sameTree(ltree, rtree); d != "" {
			e.Violate("C12.equal-output", "%s: destination after a copy from the URL differs from the destination after the same copy from the directory: %s", desc, d)
			return
		}
		if r.srv.Reqs > reqsBefore {
			e.Probe("compared/" + cm.Kind + "/" + lclass)
		}
	}
}

func diffSnippet(a, b string) string {
	i := 0
	for i < len(a) && i < len(b) && a[i] == b[i] {
		i++
	}
	start := i - 40
	if start < 0 {
		start = 0
	}
	end := i + 80
	if end > len(a) {
		end = len(a)
	}
	return a[start:end]
}

// oddName draws a file-name component from characters that need care in a
// URL, a query string or a path. It never yields ".", "..", a leading "-"
// (which a flag parser would take for a flag), a glob meta character or a
// line break.
func oddName(r *rand.Rand) string {
	parts := []string{"+", "&", "=", ".", "..", "%", "#", ";", ",", ":", "@", "$", "~", "'", "(", ")", "!", " ", "-", "%20", "%2F", "%2f..", "a", "b", "7", "\u00e9"}
	for {
		n := int(between(r, 2, 5))
		s := pick(r, "a", "m", "z", "0")
		if chance(r, 0.3) {
			s = ""
		}
		for i := 0; i < n; i++ {
			s += parts[r.IntN(len(parts))]
		}
		if s == "." || s == ".." || s[0] == '-' || s[0] == ' ' || s[len(s)-1] == ' ' {
			continue
		}
		return s
	}
}
