package engine

import (
	"bytes"
	"encoding/json"
	"fmt"
	"math"
	"math/rand/v2"
	"os"
	"path/filepath"
	"sort"
)

// C05 (CLI part): a copy / sum-copy into an existing destination is killed at
// every distinct yield site it reaches (first, last and one seeded
// occurrence), or made to fail by an environment fault; the destination must
// hold its pre-command bytes unless the command got as far as its final Sync.

type CrashCase struct {
	Clock0    int64   `json:"clock0"`
	Files     []WFile `json:"files"`
	Cmd       Cmd     `json:"cmd"`
	EnvFault  string  `json:"env,omitempty"` // "", "devfull", "layout-mismatch"
	SchedSeed uint64  `json:"sched_seed"`
	PSeed     uint64  `json:"pseed"`            // seed of the crash point subsample
	OnlyG     string  `json:"only_g,omitempty"` // replay: crash only here
	OnlyY     uint64  `json:"only_y,omitempty"`
}

type crashSim struct{}

func (crashSim) Name() string { return "clicrash" }

func (crashSim) Decode(raw json.RawMessage) (interface{}, error) {
	var c CrashCase
	if err := json.Unmarshal(raw, &c); err != nil {
		return nil, err
	}
	return &c, nil
}

func (crashSim) Gen(prop, tier string, r *rand.Rand) interface{} {
	l := genLayout(r, pick(r, "small", "small", "edge", "four", "page"))
	cc := &CliCase{}
	c := &CrashCase{Clock0: genClock0(r, l), SchedSeed: r.Uint64(), PSeed: r.Uint64()}
	if chance(r, 0.5) {
		genCopyWorld(r, cc, l, 1)
		cc.Cmd.Dest = ""
	} else {
		genSumWorld(r, cc, l, true)
	}
	// the destination exists and differs from the source
	for i := range cc.Files {
		cc.Files[i].Layout = l
		if cc.Files[i].Base == "dst" {
			cc.Files[i].Absent = false
			cc.Files[i].Fills = genFills(r, l, 1, 0.5)
		} else if len(cc.Files[i].Fills) == 0 {
			cc.Files[i].Fills = genFills(r, l, 1, 0.8)
		}
	}
	cc.Cmd.Create = l
	cc.Cmd.HasFrom, cc.Cmd.HasUntil = false, false
	cc.Cmd.ViaParse = false
	c.Files, c.Cmd = cc.Files, cc.Cmd
	switch r.IntN(8) {
	case 0:
		c.EnvFault = "devfull"
		c.Cmd.TextOut = "devfull"
	case 1:
		c.EnvFault = "layout-mismatch"
		l2 := genLayout(r, "small")
		if l2.String() == l.String() {
			c.EnvFault = ""
		} else {
			for i := range c.Files {
				if c.Files[i].Base == "dst" {
					c.Files[i].Layout = l2
					c.Files[i].Fills = genFills(r, l2, 1, 0.5)
				}
			}
		}
	}
	return c
}

type crashPoint struct {
	g    string
	y    uint64
	site int
}

func (crashSim) Run(e *Env, ci interface{}) {
	c := ci.(*CrashCase)
	cc := &CliCase{Clock0: c.Clock0, Files: c.Files, Cmd: c.Cmd}
	if !validCliCase(cc) || (c.Cmd.Kind != "copy" && c.Cmd.Kind != "sum-copy") {
		e.Skip("invalid-case")
		return
	}
	SetClock(e, c.Clock0)
	os.MkdirAll(filepath.Join(e.Dir, "src"), 0o755)
	os.MkdirAll(filepath.Join(e.Dir, "dst"), 0o755)
	for _, f := range c.Files {
		if err := buildFile(e, f); err != nil {
			e.Skip("world-build-failed")
			return
		}
	}
	dstDir := filepath.Join(e.Dir, "dst")
	pre := treeBytes(dstDir)
	restore := func() {
		os.RemoveAll(dstDir)
		os.MkdirAll(dstDir, 0o755)
		for rel, b := range pre {
			p := filepath.Join(dstDir, rel)
			os.MkdirAll(filepath.Dir(p), 0o755)
			os.WriteFile(p, b, 0o644)
		}
	}
	// twin run: fault-free (apart from the environment fault), recording the yield trace
	var trace []crashPoint
	syncSeen := false
	twin := newCliRunner(e, c.SchedSeed, 0, false)
	twin.s.Fault = func(g *G, site int) FaultAction {
		if len(trace) < 400000 {
			trace = append(trace, crashPoint{g.Name, g.Yields(), site})
		}
		if siteFunc[site] == "Whisper.Sync" {
			syncSeen = true
		}
		return FaultNone
	}
	tres := twin.run1(c.Cmd, "twin")
	twin.close()
	e.OutSched = nil
	if tres.aborted || len(tres.panics) > 0 {
		e.Skip("foreign-panic-in-command")
		return
	}
	post := treeBytes(dstDir)
	if c.EnvFault != "" {
		e.Fault("F6." + c.EnvFault)
		if tres.err == nil {
			e.Skip("environment-fault-did-not-make-the-command-fail")
		} else if !syncSeen {
			// (iv) a CLI write that fails before its final Sync leaves an
			// existing destination untouched
			if d := sameExisting(pre, pre, post); d != "" {
				e.Violate("C05.failed-cli-write", "%s failed (%v) without ever reaching Sync, but the destination changed: %s", c.Cmd.Kind, tres.err, d)
				return
			}
			e.Probe("failed-before-sync-left-destination-untouched")
		} else {
			e.Note("failed-after-sync")
		}
		return
	}
	if tres.err != nil {
		e.Skip("twin-run-failed")
		return
	}
	if sameExisting(pre, pre, post) == "" {
		e.Skip("command-wrote-nothing")
		return
	}
	// crash points: first, last and one seeded occurrence of every distinct
	// (goroutine, site) pair of the twin's trace
	type key struct {
		g    string
		site int
	}
	occ := map[key][]int{}
	for i, p := range trace {
		k := key{p.g, p.site}
		occ[k] = append(occ[k], i)
	}
	var keys []key
	for k := range occ {
		keys = append(keys, k)
	}
	sort.Slice(keys, func(i, j int) bool {
		if keys[i].g != keys[j].g {
			return keys[i].g < keys[j].g
		}
		return keys[i].site < keys[j].site
	})
	pr := newRng(c.PSeed)
	chosen := map[int]bool{}
	for _, k := range keys {
		o := occ[k]
		chosen[o[0]] = true
		chosen[o[len(o)-1]] = true
		chosen[o[pr.IntN(len(o))]] = true
	}
	var points []int
	for i := range chosen {
		points = append(points, i)
	}
	sort.Ints(points)
	if len(points) > 500 {
		pr.Shuffle(len(points), func(i, j int) { points[i], points[j] = points[j], points[i] })
		points = points[:500]
		sort.Ints(points)
	}
	if c.OnlyG != "" {
		points = nil
		for i, p := range trace {
			if p.g == c.OnlyG && p.y == c.OnlyY {
				points = []int{i}
			}
		}
	}
	for _, pi := range points {
		cp := trace[pi]
		restore()
		var snap map[string][]byte
		sawSync := false
		r := newCliRunner(e, c.SchedSeed, 0, false)
		r.expectAbort = true
		r.s.Fault = func(g *G, site int) FaultAction {
			if siteFunc[site] == "Whisper.Sync" {
				sawSync = true
			}
			if snap == nil && g.Name == cp.g && g.Yields() == cp.y {
				// the process dies here: what is on disk now is what it leaves behind
				snap = treeBytes(dstDir)
				return FaultCrash
			}
			return FaultNone
		}
		r.run1(c.Cmd, "crash")
		r.close()
		e.OutSched = nil
		if snap == nil {
			e.Skip("crash-point-not-reached")
			continue
		}
		e.Fault("F1.process-death-at-a-statement")
		e.Stats.Ops++
		dPre, dPost := sameExisting(pre, pre, snap), sameExisting(pre, post, snap)
		where := fmt.Sprintf("goroutine %s at its yield %d (site %d, %s)", cp.g, cp.y, cp.site, siteDesc(cp.site))
		if !sawSync && dPre != "" {
			e.Violate("C05.killed-cli-write", "%s killed in %s before any Sync: the destination no longer holds its pre-command bytes: %s", c.Cmd.Kind, where, dPre)
			c.OnlyG, c.OnlyY = cp.g, cp.y
			return
		}
		_ = dPost
		if torn := tornFile(pre, post, snap); torn != "" {
			e.Violate("C05.killed-cli-write", "%s killed in %s: %s holds neither its pre-command bytes nor the bytes the completed command leaves", c.Cmd.Kind, where, torn)
			c.OnlyG, c.OnlyY = cp.g, cp.y
			return
		}
		if sawSync {
			e.Probe("killed-after-sync-began")
		} else {
			e.Probe("killed-before-sync")
		}
	}
	restore()
	_ = bytes.Equal
	_ = math.MaxInt32
}

// siteFunc maps yield sites to the function they are in (from sites.json).
var siteFunc = map[int]string{}
var siteText = map[int]string{}

func siteDesc(site int) string {
	return fmt.Sprintf("%s: %s", siteFunc[site], trunc(siteText[site], 50))
}

// sameExisting compares, for the files that existed before the command (keys
// of pre), want with got; files created by the command are not constrained.
func sameExisting(pre, want, got map[string][]byte) string {
	var keys []string
	for k := range pre {
		keys = append(keys, k)
	}
	sort.Strings(keys)
	for _, k := range keys {
		g, ok := got[k]
		if !ok {
			return fmt.Sprintf("%s disappeared", k)
		}
		if !bytes.Equal(want[k], g) {
			return fmt.Sprintf("%s differs at offset %d", k, firstDiff(want[k], g))
		}
	}
	return ""
}

// tornFile returns the first pre-existing file whose bytes in got equal
// neither its bytes before the command nor its bytes after the completed twin.
func tornFile(pre, post, got map[string][]byte) string {
	var keys []string
	for k := range pre {
		keys = append(keys, k)
	}
	sort.Strings(keys)
	for _, k := range keys {
		g, ok := got[k]
		if !ok {
			return k + " (disappeared)"
		}
		if !bytes.Equal(pre[k], g) && !bytes.Equal(post[k], g) {
			return fmt.Sprintf("%s (differs from the pre-command bytes at offset %d and from the completed command's at offset %d)", k, firstDiff(pre[k], g), firstDiff(post[k], g))
		}
	}
	return ""
}
