package engine

// knownFinding returns the name of the recorded open finding that the failing
// case matches, or "". The predicates are structural (operation kind and a few
// attributes of the case), never the property id alone, and the list is fixed
// at build time: /verif/known_findings.json names the same entries.
func knownFinding(prop, sim string, c interface{}, v *Violation) string {
	for _, k := range knownMatchers {
		if k.prop == prop && k.match(sim, c, v) {
			return k.name
		}
	}
	return ""
}

type knownMatcher struct {
	name  string
	prop  string
	match func(sim string, c interface{}, v *Violation) bool
}

var knownMatchers []knownMatcher
