package engine

// knownFinding returns the name of the recorded open finding that the failing
// case matches, or "". The predicates are structural (operation kind and a few
// attributes of the case), never the property id alone, and the list is fixed
// at build time: /verif/known_findings.json names the same entries.
func knownFinding(prop, sim string, c interface{}, v *Violation) string {
	for _, k := range knownMatchers {
		if k.prop == prop && k.match(sim, c, v) {
			return k.name
		}
	}
	return ""
}

type knownMatcher struct {
	name  string
	prop  string
	match func(sim string, c interface{}, v *Violation) bool
}

var knownMatchers = []knownMatcher{
	{
		// F1: Sync under an injected write failure returns nil (the error of
		// pwritev is dropped inside the filebuffer dependency). Identified by
		// the oracle that only this fault scenario evaluates and by the fault
		// being part of the failing history.
		name: "C05-sync-drops-write-error",
		prop: "C05",
		match: func(sim string, c interface{}, v *Violation) bool {
			lc, ok := c.(*LibCase)
			if !ok || v == nil || v.Oracle != "C05.sync-success-after-failed-write" {
				return false
			}
			if v.AtOp < 0 || v.AtOp >= len(lc.Ops) {
				return false
			}
			return lc.Ops[v.AtOp].Op == "sync" && lc.Ops[v.AtOp].FailAt > 0
		},
	},
}
