package engine

import (
	"encoding/json"
	"fmt"
	wt "github.com/hnakamur/whispertool"
	"math"
	"math/rand/v2"
	"os"
	"path/filepath"
	"time"
)

// CLI world simulation (C08, C09, C10, C11, C18, C20): a world of whisper
// files is built through the library on the simulated clock, one command (and
// its follow-up commands) is executed in-process under the scheduler, and the
// property's post-conditions are evaluated with library-level reads at the
// clock value the command observed.

// TickFault is F3: a clock tick in the middle of a command.
type TickFault struct {
	G string `json:"g"` // goroutine name, e.g. "A0.1"
	Y uint64 `json:"y"` // its yield count at which the tick happens
	D int64  `json:"d"` // seconds
}

type CliCase struct {
	Mode      string     `json:"mode"`
	Clock0    int64      `json:"clock0"`
	Files     []WFile    `json:"files"`
	Cmd       Cmd        `json:"cmd"`
	Tick      *TickFault `json:"tick,omitempty"`
	SchedSeed uint64     `json:"sched_seed"`
	Deviate   *LibPt     `json:"deviate,omitempty"` // C11: deviation written into the destination
	DevArch   int        `json:"dev_arch,omitempty"`
	UlpDev    bool       `json:"ulp_dev,omitempty"`   // the deviation is one ulp away from the stored value
	EnvFault  string     `json:"env_fault,omitempty"` // F6: "dest-exists" (generate), ...
	Race      *Cmd       `json:"race,omitempty"`      // "dest-race": a second generate for the same destination
	Park      *TickFault `json:"park,omitempty"`      // "dest-race": where the first generate is parked
}

type cliSim struct{}

func (cliSim) Name() string { return "cli" }

func (cliSim) Decode(raw json.RawMessage) (interface{}, error) {
	var c CliCase
	if err := json.Unmarshal(raw, &c); err != nil {
		return nil, err
	}
	return &c, nil
}

// genFills draws the contents of one file: sparse points per archive, written
// finest first so that explicit coarser writes override the propagated
// aggregates.
func genFills(r *rand.Rand, l Layout, vmode int, density float64) []WFill {
	var out []WFill
	for id, a := range l.Archs {
		if chance(r, 0.2) {
			continue
		}
		n := int(float64(a.N) * density * r.Float64())
		if n > 60 {
			n = 60
		}
		if n == 0 && chance(r, 0.7) {
			n = 1
		}
		f := WFill{ID: id}
		for k := 0; k < n; k++ {
			f.Pts = append(f.Pts, LibPt{Age: between(r, 0, a.R()-1), V: FV(genValue(r, vmode))})
		}
		if len(f.Pts) > 0 {
			out = append(out, f)
		}
	}
	return out
}

func cloneFills(fs []WFill) []WFill {
	out := make([]WFill, len(fs))
	for i, f := range fs {
		out[i] = WFill{ID: f.ID, Pts: append([]LibPt(nil), f.Pts...)}
	}
	return out
}

// genWindow draws window flags for a command.
func genWindow(r *rand.Rand, l Layout, c *Cmd) {
	n := len(l.Archs)
	switch r.IntN(7) {
	case 0, 1: // defaults
	case 2: // narrow
		a := l.Archs[r.IntN(n)]
		c.HasFrom, c.HasUntil = true, true
		c.FromAge = between(r, 1, a.R())
		c.UntilAge = c.FromAge - between(r, 0, min64(c.FromAge, 6*a.S))
	case 3: // in the past
		c.HasFrom, c.HasUntil = true, true
		c.FromAge = between(r, 2, l.MaxRet())
		c.UntilAge = between(r, 1, c.FromAge)
	case 4: // beyond the finest archive's retention
		c.HasFrom, c.HasUntil = true, true
		c.FromAge = l.MaxRet()
		c.UntilAge = min64(l.Archs[0].R()+between(r, 1, 3*l.Archs[0].S), c.FromAge)
	case 5: // only from
		c.HasFrom = true
		c.FromAge = between(r, 0, l.MaxRet()+3)
	case 6: // degenerate
		c.HasFrom, c.HasUntil = true, true
		c.FromAge = between(r, 0, l.MaxRet())
		c.UntilAge = c.FromAge
	}
}

func min64(a, b int64) int64 {
	if a < b {
		return a
	}
	return b
}

func genArchiveSel(r *rand.Rand, n int) int {
	if chance(r, 0.5) {
		return -1
	}
	return r.IntN(n)
}

func (cliSim) Gen(prop, tier string, r *rand.Rand) interface{} {
	l := genLayout(r, pick(r, "tiny", "small", "small", "small", "edge", "four"))
	if (prop == "C18" || prop == "C08" || prop == "C09") && chance(r, 0.15) {
		l = genLayout(r, "page")
	}
	c := &CliCase{Clock0: genClock0(r, l), SchedSeed: r.Uint64()}
	vmode := r.IntN(3)
	switch prop {
	case "C08":
		c.Mode = "copy"
		genCopyWorld(r, c, l, vmode)
	case "C09":
		c.Mode = "diff"
		genDiffWorld(r, c, l, vmode)
	case "C10":
		c.Mode = "sum"
		genSumWorld(r, c, l, false)
	case "C11":
		c.Mode = "sumcopy"
		genSumWorld(r, c, l, true)
	case "C18":
		c.Mode = pick(r, "view", "view-raw")
		genViewWorld(r, c, l)
	case "C20":
		c.Mode = "generate"
		genGenerate(r, c, l)
	case "C06":
		c.Mode = "c06cli"
		switch r.IntN(3) {
		case 0:
			genGenerate(r, c, l)
			c.EnvFault = ""
			c.Files = nil
		case 1:
			genCopyWorld(r, c, l, vmode)
			c.EnvFault = ""
			for i := range c.Files {
				c.Files[i].Layout = l
				if c.Files[i].Base == "dst" {
					c.Files[i].Absent = true
				} else if chance(r, 0.4) {
					c.Files[i].Fills = nil // nothing to copy
				}
			}
			c.Cmd.Create = l
		case 2:
			genSumWorld(r, c, l, true)
			c.Deviate = nil
			for i := range c.Files {
				if c.Files[i].Base == "dst" {
					c.Files[i].Absent = true
				} else if chance(r, 0.3) {
					c.Files[i].Fills = nil
				}
			}
		}
	}
	if chance(r, 0.25) {
		c.Cmd.BaseStyle = pick(r, "slash", "dot", "dslash")
	}
	if (prop == "C10" || prop == "C18") && chance(r, 0.2) {
		c.Cmd.SrcRemote = true
	}
	if prop == "C09" && chance(r, 0.25) {
		c.Cmd.SrcRemote = true
	} else if prop == "C09" && chance(r, 0.15) {
		c.Cmd.DstRemote = true // the destination side is read through the server
	}
	if prop == "C20" && c.Cmd.Fill && c.EnvFault == "" && chance(r, 0.3) {
		// F3: the clock ticks while generate is running
		c.Tick = &TickFault{G: "A0", Y: uint64(between(r, 1, 4000)), D: between(r, 1, 3)}
		if chance(r, 0.7) {
			a := l.Archs[r.IntN(len(l.Archs))]
			c.Clock0 = c.Clock0 - c.Clock0%a.S + a.S - 1
		}
	}
	if chance(r, 0.15) && (prop == "C08" || prop == "C10" || prop == "C11") {
		c.Tick = &TickFault{G: pick(r, "A0", "A0.1", "A0.2", "A0.1.1"), Y: uint64(between(r, 1, 60)), D: between(r, 1, 3)}
		if chance(r, 0.5) {
			// make the tick cross a step boundary of the finest archive
			s0 := l.Archs[0].S
			c.Clock0 = c.Clock0 - c.Clock0%s0 + s0 - 1
		}
	}
	return c
}

// mismatchLayout draws a layout different from l: an unrelated one, or a
// near miss that differs only in the point count of one archive.
func mismatchLayout(r *rand.Rand, l Layout) Layout {
	if chance(r, 0.5) {
		l2 := Layout{Archs: append([]Arch(nil), l.Archs...), Method: l.Method, Xff: l.Xff}
		if chance(r, 0.7) || len(l2.Archs) == 1 {
			l2.Archs[len(l2.Archs)-1].N += between(r, 1, 5)
		} else {
			l2.Archs[0].N++
		}
		if l2.Valid() && l2.String() != l.String() {
			return l2
		}
	}
	return genLayout(r, "small")
}

func genCopyWorld(r *rand.Rand, c *CliCase, l Layout, vmode int) {
	nfiles := 1
	glob := chance(r, 0.2)
	if glob {
		nfiles = int(between(r, 2, 3))
	}
	dir := pick(r, "", "sub", "a/b")
	for i := 0; i < nfiles; i++ {
		rel := filepath.Join(dir, fmt.Sprintf("f%d.wsp", i))
		src := WFile{Base: "src", Rel: rel, Layout: l, Fills: genFills(r, l, vmode, 0.6), Link: chance(r, 0.1)}
		dst := WFile{Base: "dst", Rel: rel, Layout: l}
		switch r.IntN(6) {
		case 0:
			dst.Absent = true
		case 1: // fresh, never written
		case 2: // independent contents
			dst.Fills = genFills(r, l, vmode, 0.6)
		case 3, 4: // equal to the source in the coarser archives, different in finer ones
			dst.Fills = cloneFills(src.Fills)
			for fi := range dst.Fills {
				if dst.Fills[fi].ID == 0 || chance(r, 0.3) {
					for pi := range dst.Fills[fi].Pts {
						if chance(r, 0.5) {
							dst.Fills[fi].Pts[pi].V = FV(genValue(r, vmode))
						}
					}
				}
			}
		case 5: // exact copy
			dst.Fills = cloneFills(src.Fills)
		}
		c.Files = append(c.Files, src, dst)
	}
	cmd := Cmd{Kind: "copy", Create: l, Archive: genArchiveSel(r, len(l.Archs)), CopyNaN: chance(r, 0.5), ViaParse: chance(r, 0.3)}
	cmd.Src = c.Files[0].Rel
	if glob {
		cmd.Src = filepath.Join(dir, "f*.wsp")
	} else if chance(r, 0.2) {
		// explicit destination name
		cmd.Dest = filepath.Join(dir, "renamed.wsp")
		c.Files[1].Rel = cmd.Dest
	}
	genWindow(r, l, &cmd)
	if chance(r, 0.08) {
		// layout mismatch: the destination has another layout
		l2 := mismatchLayout(r, l)
		if l2.String() != l.String() {
			for i := range c.Files {
				if c.Files[i].Base == "dst" {
					c.Files[i].Layout = l2
					c.Files[i].Fills = nil
					if c.Files[i].Absent {
						cmd.Create = l2
					}
				}
			}
			c.EnvFault = "layout-mismatch"
		}
	}
	c.Cmd = cmd
}

func genDiffWorld(r *rand.Rand, c *CliCase, l Layout, vmode int) {
	plus := chance(r, 0.2) // file names with characters that need query escaping
	nfiles := 1
	glob := chance(r, 0.2)
	if glob {
		nfiles = int(between(r, 2, 3))
	}
	for i := 0; i < nfiles; i++ {
		rel := fmt.Sprintf("d/f%d.wsp", i)
		if plus {
			rel = fmt.Sprintf("d/f%d+a&b=c.wsp", i)
		}
		src := WFile{Base: "src", Rel: rel, Layout: l, Fills: genFills(r, l, vmode, 0.6), Link: chance(r, 0.1)}
		dst := WFile{Base: "dst", Rel: rel, Layout: l}
		switch r.IntN(6) {
		case 0, 1: // identical copy
			dst.Fills = cloneFills(src.Fills)
		case 2: // one value one ulp apart / signed zero / dropped point
			dst.Fills = cloneFills(src.Fills)
			if len(dst.Fills) > 0 {
				f := &dst.Fills[r.IntN(len(dst.Fills))]
				if len(f.Pts) > 0 {
					p := &f.Pts[r.IntN(len(f.Pts))]
					switch r.IntN(3) {
					case 0:
						p.V = FV(math.Nextafter(float64(p.V), math.Inf(1)))
					case 1:
						p.V = FV(math.Copysign(0, -1))
						src.Fills = cloneFills(dst.Fills)
						// the source holds +0 where the destination holds -0
						for fi := range src.Fills {
							for pi := range src.Fills[fi].Pts {
								if src.Fills[fi].Pts[pi].Age == p.Age && src.Fills[fi].ID == f.ID {
									src.Fills[fi].Pts[pi].V = 0
								}
							}
						}
					case 2:
						f.Pts = f.Pts[:len(f.Pts)-1]
					}
				}
			}
		case 3:
			dst.Fills = genFills(r, l, vmode, 0.6)
		case 4:
			if !glob {
				if chance(r, 0.5) {
					dst.Absent = true
				} else {
					src.Absent = true
				}
				c.EnvFault = "missing-side"
			} else {
				dst.Absent = true
				c.EnvFault = "missing-side"
			}
		case 5:
			dst.Fills = cloneFills(src.Fills)
		}
		c.Files = append(c.Files, src, dst)
	}
	cmd := Cmd{Kind: "diff", Archive: genArchiveSel(r, len(l.Archs)), ViaParse: chance(r, 0.3)}
	cmd.Src = c.Files[0].Rel
	if glob {
		cmd.Src = "d/f*.wsp"
	} else if chance(r, 0.15) {
		// explicit destination name
		cmd.Dest = "e/other name.wsp"
		c.Files[1].Rel = cmd.Dest
	}
	genWindow(r, l, &cmd)
	if chance(r, 0.06) && c.EnvFault == "" {
		l2 := mismatchLayout(r, l)
		if l2.String() != l.String() {
			for i := range c.Files {
				if c.Files[i].Base == "dst" {
					c.Files[i].Layout = l2
					c.Files[i].Fills = nil
				}
			}
			c.EnvFault = "layout-mismatch"
		}
	}
	c.Cmd = cmd
}

func genSumWorld(r *rand.Rand, c *CliCase, l Layout, withDest bool) {
	nitems := int(between(r, 1, 3))
	plus := chance(r, 0.15)
	sub := !plus && chance(r, 0.08) // the files live in a sub-directory of the item
	for it := 0; it < nitems; it++ {
		item := fmt.Sprintf("grp/it%d", it)
		linkDir := chance(r, 0.06) // the item directory is a symbolic link
		nf := int(between(r, 1, 5))
		if chance(r, 0.1) {
			nf = int(between(r, 6, 12))
		}
		if it == 0 && r.IntN(80) == 0 {
			nf = int(between(r, 62, 140)) // more files than any pool or batch size
		}
		for f := 0; f < nf; f++ {
			// dyadic values: every summation order gives the same float64
			name := fmt.Sprintf("s%d.wsp", f)
			if plus {
				name = fmt.Sprintf("s+%d&=.wsp", f)
			}
			if sub {
				name = "sub/" + name
			}
			c.Files = append(c.Files, WFile{Base: "src", Rel: item + "/" + name, Layout: l, Fills: genFills(r, l, 1, 0.7), Link: chance(r, 0.05), LinkDir: linkDir})
		}
		if withDest {
			dst := WFile{Base: "dst", Rel: fmt.Sprintf("%s/sum.wsp", item), Layout: l}
			switch r.IntN(4) {
			case 0:
				dst.Absent = true
			case 1:
			case 2:
				dst.Fills = genFills(r, l, 1, 0.7)
			case 3: // partially equal: copy of the first source
				dst.Fills = cloneFills(c.Files[len(c.Files)-nf].Fills)
			}
			c.Files = append(c.Files, dst)
		}
	}
	srcPat := pick(r, "*.wsp", "s*.wsp", "s0.wsp")
	if plus {
		srcPat = pick(r, "*.wsp", "s+*.wsp", "s+0&=.wsp")
	}
	if sub {
		srcPat = pick(r, "sub/*.wsp", "*/s0.wsp", "sub/s0.wsp", "*/*.wsp")
	}
	cmd := Cmd{Item: pick(r, "grp/it*", "grp/it0", "grp/*"), Src: srcPat, Archive: genArchiveSel(r, len(l.Archs)), ViaParse: chance(r, 0.3), NoHeader: chance(r, 0.3)}
	if withDest {
		cmd.Kind = "sum-copy"
		cmd.Dest = "sum.wsp"
		cmd.Create = l
		cmd.NoHeader = false
		if nitems >= 2 && chance(r, 0.06) {
			// F6: the existing destination of one item has another layout
			l2 := mismatchLayout(r, l)
			var dsts []int
			for i := range c.Files {
				if c.Files[i].Base == "dst" {
					dsts = append(dsts, i)
				}
			}
			if l2.String() != l.String() && len(dsts) > 0 {
				i := dsts[r.IntN(len(dsts))]
				c.Files[i].Absent, c.Files[i].Layout, c.Files[i].Fills = false, l2, nil
				c.EnvFault = "one-destination-has-another-layout"
			}
		} else if chance(r, 0.4) {
			// deviation for the sum-diff check
			a := r.IntN(len(l.Archs))
			c.DevArch = a
			c.Deviate = &LibPt{Age: between(r, 0, l.Archs[a].R()-1), V: FV(12345.5)}
			c.UlpDev = chance(r, 0.5)
		}
	} else {
		cmd.Kind = "sum"
		switch r.IntN(12) {
		case 0:
			cmd.Item = "nomatch*"
			c.EnvFault = "pattern-matches-nothing"
		case 1:
			cmd.Src = "zz*.wsp"
			c.EnvFault = "pattern-matches-nothing"
		case 2:
			// one file with another layout
			l2 := mismatchLayout(r, l)
			if l2.String() != l.String() {
				for i := len(c.Files) - 1; i >= 0; i-- {
					if c.Files[i].Base == "src" {
						c.Files[i].Layout = l2
						c.Files[i].Fills = nil
						c.EnvFault = "layout-mismatch"
						break
					}
				}
			}
		}
	}
	genWindow(r, l, &cmd)
	c.Cmd = cmd
}

func genViewWorld(r *rand.Rand, c *CliCase, l Layout) {
	f := WFile{Base: "src", Rel: "v/file.wsp", Layout: l, Fills: genFills(r, l, 2, 0.8)}
	// special values
	for fi := range f.Fills {
		for pi := range f.Fills[fi].Pts {
			switch r.IntN(12) {
			case 0:
				f.Fills[fi].Pts[pi].V = FV(math.Inf(1))
			case 1:
				f.Fills[fi].Pts[pi].V = FV(math.Inf(-1))
			case 2:
				f.Fills[fi].Pts[pi].V = FV(math.NaN())
			case 3:
				f.Fills[fi].Pts[pi].V = FV(math.Copysign(0, -1))
			case 4:
				f.Fills[fi].Pts[pi].V = FV(0.1 + 0.2)
			case 5:
				f.Fills[fi].Pts[pi].V = FV(math.Float64frombits(r.Uint64()&^(0x7ff<<52) | uint64(between(r, 1, 2046))<<52))
			}
		}
	}
	if chance(r, 0.15) {
		// the writer's clock was ahead: points dated after the viewer's clock
		// occupy the ring slots of instants one retention earlier
		a := r.IntN(len(l.Archs))
		var pts []LibPt
		for j := int64(1); j <= between(r, 1, 3); j++ {
			pts = append(pts, LibPt{Age: -j * l.Archs[a].S, V: FV(1000 + float64(j))})
		}
		f.Fills = append(f.Fills, WFill{ID: a, Pts: pts})
	}
	if chance(r, 0.12) {
		// names that need care in a URL or a query string
		f.Rel = oddName(r) + "/" + oddName(r) + ".wsp"
	}
	c.Files = []WFile{f}
	cmd := Cmd{Kind: c.Mode, Src: f.Rel, Archive: genArchiveSel(r, len(l.Archs)), NoHeader: chance(r, 0.3), Sort: chance(r, 0.5), ViaParse: chance(r, 0.3)}
	genWindow(r, l, &cmd)
	c.Cmd = cmd
}

func genGenerate(r *rand.Rand, c *CliCase, l Layout) {
	// instants aligned and unaligned to each archive's step
	if chance(r, 0.5) {
		a := l.Archs[r.IntN(len(l.Archs))]
		c.Clock0 = c.Clock0 - c.Clock0%a.S + pick(r, int64(0), 0, 1, a.S-1, a.S/2)
	}
	c.Cmd = Cmd{Kind: "generate", Dest: "g/new.wsp", Create: l, Fill: chance(r, 0.8), RandMax: int(pick(r, int64(0), 1, 5, 100, 100, 1000)), ViaParse: chance(r, 0.3)}
	if chance(r, 0.15) {
		c.EnvFault = "dest-exists"
		c.Files = []WFile{{Base: "dst", Rel: "g/new.wsp", Layout: l, Fills: genFills(r, l, 0, 0.5)}}
	} else if chance(r, 0.08) {
		// F6: the report cannot be written (full disk); with more than a buffer
		// of report the failure comes before the file is synced
		c.EnvFault = "textout-devfull"
		c.Cmd.TextOut = "devfull"
		if chance(r, 0.6) {
			// the report goes to a standard output on which nothing can be written
			c.EnvFault = "stdout-unwritable"
			c.Cmd.TextOut = "stdout"
		} else if chance(r, 0.5) {
			// F10: the disk is full beyond an offset inside the file to generate
			c.EnvFault = "disk-full"
			c.Cmd.TextOut = "none"
		}
	} else if chance(r, 0.15) {
		c.EnvFault = "dest-race"
		l2 := genLayout(r, pick(r, "tiny", "small"))
		c.Race = &Cmd{Kind: "generate", Dest: c.Cmd.Dest, Create: l2, Fill: chance(r, 0.8), RandMax: 7}
		c.Park = &TickFault{G: pick(r, "A0", "A0", "A1"), Y: uint64(between(r, 1, 40))}
		if chance(r, 0.2) {
			c.Park.Y = uint64(between(r, 1, 3000))
		}
	}
}

func validCliCase(c *CliCase) bool {
	if c.Clock0 < 946684800 || c.Clock0 > math.MaxUint32-3*400*86400 || len(c.Files) > 400 {
		return false
	}
	for _, f := range c.Files {
		if !f.Layout.Valid() || (f.Base != "src" && f.Base != "dst") || f.Rel == "" || len(f.Fills) > 12 {
			return false
		}
		for _, fl := range f.Fills {
			if len(fl.Pts) > 400 {
				return false
			}
		}
	}
	if c.Race != nil && (!c.Race.Create.Valid() || c.Race.Kind != "generate") {
		return false
	}
	if c.Cmd.Kind == "copy" || c.Cmd.Kind == "sum-copy" || c.Cmd.Kind == "generate" {
		if !c.Cmd.Create.Valid() {
			return false
		}
	}
	if c.Cmd.Archive < -3 || c.Cmd.Archive > 8 || c.Cmd.RandMax < 0 || c.Cmd.RandMax > 1_000_000 {
		return false
	}
	if c.Tick != nil && (c.Tick.D < 1 || c.Tick.D > 5) {
		return false
	}
	return true
}

func (cliSim) Run(e *Env, ci interface{}) {
	c := ci.(*CliCase)
	if !validCliCase(c) {
		e.Skip("invalid-case")
		return
	}
	SetClock(e, c.Clock0)
	os.MkdirAll(filepath.Join(e.Dir, "src"), 0o755)
	os.MkdirAll(filepath.Join(e.Dir, "dst"), 0o755)
	for _, f := range c.Files {
		if err := buildFile(e, f); err != nil {
			e.Skip("world-build-failed")
			return
		}
	}
	// a non-UTC process time zone must not show in any output
	oldLocal := time.Local
	time.Local = time.FixedZone("SIM", int(c.SchedSeed%27-12)*1800)
	defer func() { time.Local = oldLocal }()
	serveBase = "src"
	if c.Cmd.DstRemote && !c.Cmd.SrcRemote {
		serveBase = "dst"
	}
	r := newCliRunner(e, c.SchedSeed, 0, c.Cmd.SrcRemote || c.Cmd.DstRemote)
	serveBase = "src"
	defer r.close()
	if c.Tick != nil {
		fired := false
		tk := *c.Tick
		r.s.Fault = func(g *G, site int) FaultAction {
			if !fired && g.Name == tk.G && g.Yields() == tk.Y {
				fired = true
				r.s.Tick(time.Duration(tk.D) * time.Second)
				e.Fault("F3.clock-tick-inside-command")
				return FaultPark
			}
			return FaultNone
		}
	}
	if c.EnvFault == "dest-race" && c.Park != nil && c.Tick == nil {
		parked := false
		pk := *c.Park
		r.s.Fault = func(g *G, site int) FaultAction {
			if !parked && g.Name == pk.G && g.Yields() == pk.Y {
				parked = true
				e.Fault("F2.forced-preemption")
				return FaultPark
			}
			return FaultNone
		}
	}
	switch c.Mode {
	case "copy":
		checkCopy(e, r, c)
	case "diff":
		checkDiff(e, r, c)
	case "sum":
		checkSum(e, r, c)
	case "sumcopy":
		checkSumCopy(e, r, c)
	case "view":
		checkView(e, r, c)
	case "view-raw":
		checkViewRaw(e, r, c)
	case "generate":
		checkGenerate(e, r, c)
	case "c06cli":
		checkC06Cli(e, r, c)
	default:
		e.Skip("invalid-case")
	}
	// a command value carries no state from one Execute to the next: executed
	// again later it must answer like a freshly built command at that instant
	switch c.Cmd.Kind {
	case "view", "view-raw", "sum", "diff":
		if c.Cmd.HasFrom || c.Cmd.HasUntil {
			return // explicit bounds are absolute instants: a fresh command would get other ones
		}
		if e.Failed() || c.Tick != nil || r.first == nil || r.first.built == nil || r.first.aborted || len(r.first.panics) > 0 || c.SchedSeed%4 != 1 || r.s.Aborting() {
			return
		}
		Advance(e, c.Files[0].Layout.Archs[0].S+int64(c.SchedSeed%7))
		// meanwhile a new point reached every source file
		for _, f := range c.Files {
			if f.Base != "src" || f.Absent {
				continue
			}
			if db, err := wt.Open(filepath.Join(e.Dir, "src", f.Rel), wt.WithoutFlock()); err == nil {
				n2 := Now()
				callSafely(func() error {
					return db.UpdatePointsForArchive([]wt.Point{{Time: wt.Timestamp(n2), Value: 4242.5}}, 0, wt.Timestamp(n2))
				})
				db.Sync()
				db.Close()
			}
		}
		fresh := r.run1(c.Cmd, "fresh")
		again := r.rerun(r.first, "again")
		if fresh.aborted || again.aborted || len(fresh.panics) > 0 {
			return
		}
		if len(again.panics) > 0 {
			e.Violate(e.Prop+".re-execution", "%s: executing the same command value a second time panicked: %s", c.Cmd.Kind, again.panics[0])
			return
		}
		fo, ao := normaliseOut(fresh.out, e.Dir, true), normaliseOut(again.out, e.Dir, true)
		if outcomeClass(fresh.err) != outcomeClass(again.err) || fo != ao {
			e.Violate(e.Prop+".re-execution", "%s: the command value executed a second time %d s later answers differently from a freshly built command at the same instant: outcome %s vs %s, output %q vs %q",
				c.Cmd.Kind, Now()-r.first.now, outcomeClass(again.err), outcomeClass(fresh.err), diffSnippet(ao, fo), diffSnippet(fo, ao))
			return
		}
		e.Probe("command-value-executed-again-later")
	}
}
