package engine

import (
	"bytes"
	"encoding/json"
	"fmt"
	"math"
	"math/rand/v2"
	"os"
	"path/filepath"
	"sort"
	"time"

	wt "github.com/hnakamur/whispertool"

	"wsim/model"
)

// ---------------------------------------------------------------------------
// Library history simulation (C01, C02, C03, C05, C06): one actor, one file,
// a history of writes, clock advances, syncs, reopen and abandonment, with the
// property's oracles evaluated after every step.

// LibPt is a point relative to the simulated clock at the time of the call.
type LibPt struct {
	Age int64 `json:"age"` // t = now - age
	V   FV    `json:"v"`
}

// absAgeBase marks an Age that stands for an absolute instant: t = Age - absAgeBase.
const absAgeBase = int64(1) << 40

// LibOp is one operation of a library history.
type LibOp struct {
	Op       string  `json:"op"` // upd many adv sync reopen abandon
	ID       int     `json:"id,omitempty"`
	Pts      []LibPt `json:"pts,omitempty"`
	D        int64   `json:"d,omitempty"`
	Implicit bool    `json:"implicit_now,omitempty"` // pass now=0, rely on whispertool.Now
	NoClose  bool    `json:"no_close,omitempty"`     // abandon without Close
	FailAt   int64   `json:"fail_at,omitempty"`      // sync (C05): >0: writes at file offsets >= FailAt-1 fail during this Sync (F10, the disk is full beyond that offset)
}

// LibCase is a library history.
type LibCase struct {
	Layout  Layout  `json:"layout"`
	Clock0  int64   `json:"clock0"`
	Ops     []LibOp `json:"ops"`
	Windows int     `json:"windows"`          // random windows per archive after each step
	WSeed   uint64  `json:"wseed"`            // seed of the window draws (part of the case)
	Syncer  int     `json:"syncer,omitempty"` // C05: >0: a second goroutine calls Sync on the same handle this many times while the history runs
	Over    int64   `json:"over,omitempty"`   // >0: the path already holds a never-written file whose last archive is this many points longer; it is created again in place (open flags without O_EXCL)
}

type libSim struct{}

func (libSim) Name() string { return "lib" }

func (libSim) Decode(raw json.RawMessage) (interface{}, error) {
	var c LibCase
	if err := json.Unmarshal(raw, &c); err != nil {
		return nil, err
	}
	return &c, nil
}

func (libSim) Gen(prop, tier string, r *rand.Rand) interface{} {
	var class string
	switch prop {
	case "C01":
		class = pick(r, "tiny", "small", "small", "edge", "four", "page")
	case "C02":
		class = pick(r, "small", "small", "edge", "edge", "four", "four")
	case "C03":
		class = pick(r, "tiny", "small", "small", "edge", "four")
	case "C05":
		class = pick(r, "page", "page", "prod", "small", "four")
	case "C06":
		class = pick(r, "tiny", "small", "small", "edge", "four", "page")
	default:
		class = "small"
	}
	if (prop == "C01" || prop == "C06") && r.IntN(60) == 0 {
		class = "big"
	}
	if prop != "C05" && r.IntN(40) == 0 {
		class = "epoch" // the coarsest retention reaches back beyond the epoch
	}
	l := genLayout(r, class)
	c := &LibCase{Layout: l, Clock0: genClock0(r, l), Windows: 4, WSeed: r.Uint64()}
	if prop == "C06" && chance(r, 0.06) {
		c.Over = between(r, 1, 50)
	}
	if prop == "C05" && chance(r, 0.06) {
		c.Syncer = int(between(r, 2, 8))
	}
	nops := int(between(r, 3, 40))
	if class == "prod" || class == "page" {
		nops = int(between(r, 3, 25))
	}
	if class == "big" {
		nops = int(between(r, 3, 8))
	}
	vmode := r.IntN(3)
	if prop == "C02" && chance(r, 0.5) {
		vmode = r.IntN(2)
	}
	// swarm: per-run weights
	wUpd, wMany, wAdv, wSync, wReopen, wAbandon := 3+r.IntN(4), 3+r.IntN(5), 2+r.IntN(4), 1+r.IntN(3), r.IntN(3), r.IntN(2)
	if prop == "C05" {
		wSync += 2
		wAbandon = 0 // every step is an abandonment point already
	}
	corruptAt := -1
	if prop == "C05" && len(l.Archs) > 1 && chance(r, 0.25) {
		corruptAt = 1 + r.IntN(nops)
	}
	tot := wUpd + wMany + wAdv + wSync + wReopen + wAbandon
	n := len(l.Archs)
	for i := 0; i < nops; i++ {
		if i == corruptAt {
			c.Ops = append(c.Ops, LibOp{Op: "sync"}, LibOp{Op: "corrupt", D: int64(r.IntN(8))})
		}
		x := r.IntN(tot)
		switch {
		case x < wUpd:
			op := LibOp{Op: "upd", Implicit: chance(r, 0.2)}
			op.ID = genTargetID(r, prop, n)
			op.Pts = []LibPt{{Age: genAge(r, prop, l, op.ID, true), V: FV(genValueFor(r, prop, vmode))}}
			c.Ops = append(c.Ops, op)
		case x < wUpd+wMany:
			op := LibOp{Op: "many", Implicit: chance(r, 0.2)}
			op.ID = genTargetID(r, prop, n)
			k := int(between(r, 1, 12))
			if chance(r, 0.2) {
				k = int(between(r, 10, 60))
			}
			dense := chance(r, 0.4)
			age0 := genAge(r, prop, l, op.ID, false)
			for j := 0; j < k; j++ {
				a := genAge(r, prop, l, op.ID, false)
				if dense {
					a = age0 + int64(j)*pick(r, int64(1), l.Archs[0].S)
					if op.ID >= 0 && a >= l.Archs[op.ID].R() && prop != "C03" {
						a = age0
					}
				}
				if chance(r, 0.1) && j > 0 {
					a = op.Pts[r.IntN(j)].Age // duplicate timestamp
				}
				op.Pts = append(op.Pts, LibPt{Age: a, V: FV(genValueFor(r, prop, vmode))})
			}
			if prop == "C03" && r.IntN(120) == 0 {
				// a batch of several thousand points, nearly all of them stale, in
				// no particular order (a backlog replayed through UpdateMany)
				nfill := int(between(r, 4100, 6000))
				fill := make([]LibPt, 0, nfill+len(op.Pts))
				for j := 0; j < nfill; j++ {
					fill = append(fill, LibPt{Age: l.MaxRet() + between(r, 1, 5000), V: FV(float64(j % 7))})
				}
				for _, p := range op.Pts {
					fill[r.IntN(len(fill))] = p
				}
				op.Pts = fill
				op.ID, op.Implicit = -1, true
			}
			c.Ops = append(c.Ops, op)
		case x < wUpd+wMany+wAdv:
			d := int64(0)
			switch r.IntN(6) {
			case 0:
				d = 1
			case 1:
				d = l.Archs[0].S
			case 2:
				d = l.Archs[r.IntN(n)].S + pick(r, int64(-1), 0, 1)
			case 3:
				d = l.Archs[r.IntN(n)].R() + pick(r, int64(-1), 0, 1)
			case 4:
				d = between(r, 1, l.Archs[0].R())
			case 5:
				d = between(r, 1, 2*l.MaxRet())
			}
			if d < 1 {
				d = 1
			}
			c.Ops = append(c.Ops, LibOp{Op: "adv", D: d})
		case x < wUpd+wMany+wAdv+wSync:
			op := LibOp{Op: "sync"}
			if prop == "C05" && chance(r, 0.04) {
				// F10: the disk is full beyond a seeded offset while this Sync writes
				size := int64(16 + 12*len(l.Archs))
				for _, a := range l.Archs {
					size += 12 * a.N
				}
				op.FailAt = 1 + pick(r, int64(0), 0, 4096, 4096*between(r, 0, size/4096), between(r, 0, size))
			}
			c.Ops = append(c.Ops, op)
		case x < wUpd+wMany+wAdv+wSync+wReopen:
			c.Ops = append(c.Ops, LibOp{Op: "reopen"})
		default:
			c.Ops = append(c.Ops, LibOp{Op: "abandon", NoClose: chance(r, 0.5)})
		}
	}
	if prop == "C05" && c.Syncer == 0 && r.IntN(60) == 0 {
		// a very long batch (about a megabyte of slot writes) that is never synced
		a := l.Archs[0]
		np := int(between(r, 88000, 100000))
		op := LibOp{Op: "many", ID: 0}
		for j := 0; j < np; j++ {
			op.Pts = append(op.Pts, LibPt{Age: (int64(j) * a.S) % a.R(), V: FV(float64(j % 100))})
		}
		c.Ops = append(c.Ops, op)
	}
	return c
}

// genValueFor: C01 also writes NaN and infinities (a written NaN replaces the
// older value of its slot like any other write).
func genValueFor(r *rand.Rand, prop string, vmode int) float64 {
	if prop == "C01" && chance(r, 0.04) {
		return pick(r, math.NaN(), math.NaN(), math.Inf(1), math.Inf(-1))
	}
	if prop == "C02" && chance(r, 0.02) {
		return math.NaN()
	}
	return genValue(r, vmode)
}

func genTargetID(r *rand.Rand, prop string, n int) int {
	switch prop {
	case "C03":
		if chance(r, 0.7) {
			return -1
		}
		return r.IntN(n)
	case "C05", "C06":
		if chance(r, 0.5) {
			return -1
		}
		return r.IntN(n)
	}
	// C01, C02: explicit archive ids (routing is C03's business); C02 also
	// uses best-archive writes, judged when they route to a single archive
	if prop == "C02" && chance(r, 0.2) {
		return -1
	}
	if chance(r, 0.6) {
		return 0
	}
	return r.IntN(n)
}

// genAge draws the age (now - t) of a point.
func genAge(r *rand.Rand, prop string, l Layout, id int, single bool) int64 {
	n := len(l.Archs)
	switch prop {
	case "C03":
		// ages across every retention boundary
		a := l.Archs[r.IntN(n)]
		switch r.IntN(6) {
		case 0:
			return a.R() + pick(r, int64(-1), 0, 1)
		case 1:
			return pick(r, int64(0), 0, 1, 2)
		case 2:
			if single {
				return -1
			}
			switch r.IntN(6) {
			case 0:
				return -between(r, 1, 3*l.Archs[0].S) // future-dated point in a batch
			case 1:
				return int64(946684800) + between(r, 0, 40*365*86400) // decades old (timestamps near 1970..2010)
			case 2:
				return absAgeBase + pick(r, int64(0), 0, 1, l.Archs[0].S) // the epoch itself: timestamp 0
			}
			return 0
		case 3:
			return between(r, 0, l.MaxRet()+5)
		case 4:
			return between(r, 0, l.Archs[0].R())
		}
		return between(r, 0, a.R())
	case "C05", "C06":
		tgt := id
		if tgt < 0 {
			tgt = r.IntN(n)
		}
		if prop == "C06" && !single && chance(r, 0.04) {
			// a slightly future timestamp in a batch: the slot then holds a
			// newer lap than the one a fetch maps onto it
			return -between(r, 1, 2*l.Archs[tgt].S)
		}
		return between(r, 0, l.Archs[tgt].R()-1)
	}
	// C01, C02: in range of the named archive; a share older than the named
	// archive's retention through the single-update path (another lap of the
	// ring) and a small share in the future through the batch path.
	if id < 0 {
		id = 0
		if chance(r, 0.3) {
			id = r.IntN(n)
		}
	}
	a := l.Archs[id]
	if single && chance(r, 0.15) {
		return between(r, 0, l.MaxRet()-1)
	}
	if !single && prop == "C01" && chance(r, 0.03) {
		return -between(r, 1, 2*a.S)
	}
	if !single && prop == "C02" && chance(r, 0.04) {
		// a point slightly ahead of the receiver's clock: stored like any other
		// point of the batch, hence one of "the values currently stored" when
		// its coarser interval is recomputed
		hi := 2 * a.S
		if id+1 < n {
			hi = l.Archs[id+1].S
		}
		return -between(r, 1, hi)
	}
	x := between(r, 0, a.R()-1)
	switch r.IntN(4) {
	case 0:
		x = between(r, 0, 3*a.S)
	case 1:
		x = a.R() - 1 - between(r, 0, a.S)
	}
	if x > a.R()-1 {
		x = a.R() - 1
	}
	if x < 0 {
		x = 0
	}
	return x
}

// ---------------------------------------------------------------------------

type libRun struct {
	e     *Env
	c     *LibCase
	prop  string
	path  string
	db    *wt.Whisper
	archs []model.Arch
	wr    *rand.Rand
	// C01 shadow of archive 0: slot key -> last write
	shadow map[int64]model.Slot
	// C05
	lastSynced  [][]float64 // per archive whole-retention values at last sync (by reader)
	syncedBytes []byte
	hdrBytes    []byte
	c06st       *c06State
	leaked      []*wt.Whisper // handles abandoned without Close (closed at the end of the run)
	noFlock     bool
}

func toModelArchs(l Layout) []model.Arch {
	out := make([]model.Arch, len(l.Archs))
	for i, a := range l.Archs {
		out[i] = model.Arch{S: a.S, N: a.N}
	}
	return out
}

func rawOf(db *wt.Whisper, id int) (model.Raw, error) {
	pts, err := db.GetAllRawUnsortedPoints(id)
	if err != nil {
		return nil, err
	}
	raw := make(model.Raw, len(pts))
	for i, p := range pts {
		raw[i] = model.Slot{I: int64(p.Time), V: float64(p.Value)}
	}
	return raw, nil
}

func allRaw(db *wt.Whisper, n int) ([]model.Raw, error) {
	out := make([]model.Raw, n)
	for i := 0; i < n; i++ {
		r, err := rawOf(db, i)
		if err != nil {
			return nil, err
		}
		out[i] = r
	}
	return out, nil
}

func rawEqual(a, b model.Raw) (int, bool) {
	for i := range a {
		if a[i].I != b[i].I || !model.SameValue(a[i].V, b[i].V) {
			return i, false
		}
	}
	return -1, true
}

// callSafely runs f and converts a panic into a string.
func callSafely(f func() error) (err error, panicked string) {
	defer func() {
		if r := recover(); r != nil {
			if IsAbort(r) {
				panic(r)
			}
			panicked = fmt.Sprint(r)
		}
	}()
	return f(), ""
}

func (libSim) Run(e *Env, ci interface{}) {
	c := ci.(*LibCase)
	if !c.Layout.Valid() || len(c.Ops) > 400 || c.Clock0 < 946684800 || c.Clock0 > math.MaxUint32-3*400*86400 {
		e.Skip("invalid-case")
		return
	}
	for _, op := range c.Ops {
		if len(op.Pts) > 120000 || op.D < 0 || op.D > 4*400*86400 || op.ID < -1 || op.ID >= len(c.Layout.Archs) {
			e.Skip("invalid-case")
			return
		}
		if (op.Op == "upd") && len(op.Pts) != 1 {
			e.Skip("invalid-case")
			return
		}
	}
	if e.Prop == "C05" {
		runC05(e, c)
		return
	}
	lr := &libRun{e: e, c: c, prop: e.Prop, archs: toModelArchs(c.Layout), wr: newRng(c.WSeed), shadow: map[int64]model.Slot{}}
	lr.path = filepath.Join(e.Dir, "h.wsp")
	SetClock(e, c.Clock0)
	wt.Now = time.Now
	var copts []wt.Option
	if c.Over > 0 && c.Over <= 1000 {
		big := Layout{Method: c.Layout.Method%6 + 1, Xff: c.Layout.Xff, Archs: append([]Arch(nil), c.Layout.Archs...)}
		big.Archs[len(big.Archs)-1].N += c.Over
		if odb, oerr := big.create(lr.path); oerr == nil {
			odb.Sync()
			odb.Close()
			copts = append(copts, wt.WithOpenFileFlag(os.O_RDWR|os.O_CREATE))
			e.Probe("created-in-place-over-a-longer-file")
		}
	}
	db, err := c.Layout.create(lr.path, copts...)
	if err != nil {
		e.Violate(e.Prop+".create", "Create(%s) failed: %v", c.Layout, err)
		return
	}
	lr.db = db
	defer func() {
		if lr.db != nil {
			lr.db.Close()
		}
		for _, h := range lr.leaked {
			h.Close()
		}
	}()
	if err := db.Sync(); err != nil {
		e.Violate(e.Prop+".sync", "Sync after Create failed: %v", err)
		return
	}
	if lr.prop == "C06" {
		lr.c06Init()
		defer lr.c06Close()
	}
	lr.afterStep(-1)
	for i, op := range c.Ops {
		if e.Failed() {
			return
		}
		e.Op(i)
		if !lr.step(i, op) {
			return
		}
		if e.Failed() {
			return
		}
		lr.afterStep(i)
	}
}

// pts converts relative points into absolute ones at the current clock.
func (lr *libRun) abs(op LibOp, now int64) []model.Pt {
	out := make([]model.Pt, len(op.Pts))
	for i, p := range op.Pts {
		out[i] = model.Pt{T: now - p.Age, V: float64(p.V)}
		if p.Age >= absAgeBase {
			out[i].T = p.Age - absAgeBase // an absolute instant near the epoch (0, 1, ...)
		}
	}
	return out
}

func (lr *libRun) step(i int, op LibOp) bool {
	e := lr.e
	now := Now()
	nowArg := wt.Timestamp(now)
	if op.Implicit {
		nowArg = 0
	}
	switch op.Op {
	case "adv":
		Advance(e, op.D)
		e.Fault("F4.clock-advance")
		if op.D > lr.c.Layout.Archs[0].R() {
			e.Probe("advance-longer-than-finest-retention")
		}
		return true
	case "sync":
		if err := lr.db.Sync(); err != nil {
			e.Violate(lr.prop+".sync", "Sync failed: %v", err)
			return false
		}
		lr.atSync()
		return true
	case "reopen":
		if err := lr.db.Sync(); err != nil {
			e.Violate(lr.prop+".sync", "Sync failed: %v", err)
			return false
		}
		lr.atSync()
		lr.db.Close()
		var opts []wt.Option
		if lr.noFlock {
			opts = append(opts, wt.WithoutFlock())
		}
		db, err := wt.Open(lr.path, opts...)
		if err != nil {
			lr.db = nil
			e.Violate(lr.prop+".reopen", "Open after Sync+Close failed: %v", err)
			return false
		}
		lr.db = db
		e.Note("reopen")
		return true
	case "abandon":
		// handle dropped without Sync: the model state falls back to what
		// was observed at the last sync, so the simplest sound thing for the
		// content oracles is to re-base them on what the file now holds.
		if !op.NoClose {
			lr.db.Close()
		} else {
			// a dead process releases its lock; in-process the descriptor
			// lives on, so later handles of this run do without the lock
			lr.leaked = append(lr.leaked, lr.db)
			lr.noFlock = true
		}
		db, err := wt.Open(lr.path, wt.WithoutFlock())
		if err != nil {
			lr.db = nil
			e.Violate(lr.prop+".reopen", "Open after abandonment failed: %v", err)
			return false
		}
		lr.db = db
		e.Fault("F2.abandon")
		lr.rebaseAfterAbandon()
		return true
	}
	pts := lr.abs(op, now)
	for _, p := range pts {
		if p.T < 0 || p.T >= math.MaxUint32 {
			e.Skip("timestamp-out-of-domain")
			return false
		}
		if p.T < lr.c.Layout.MaxStep() && lr.c.Layout.MaxRet() >= now {
			// in range only because the retention reaches beyond the epoch, and
			// aligned to interval 0, which the format reads as "empty slot"
			e.Skip("interval-zero-is-the-empty-marker")
			return false
		}
	}
	pre, err := allRaw(lr.db, len(lr.archs))
	if err != nil {
		e.Violate(lr.prop+".raw", "GetAllRawUnsortedPoints failed: %v", err)
		return false
	}
	var callErr error
	var pan string
	switch op.Op {
	case "upd":
		callErr, pan = callSafely(func() error {
			if op.ID == -1 && op.Implicit {
				return lr.db.Update(wt.Timestamp(pts[0].T), wt.Value(pts[0].V)) // the public wrapper
			}
			return lr.db.UpdatePointForArchive(op.ID, wt.Timestamp(pts[0].T), wt.Value(pts[0].V), nowArg)
		})
	case "many":
		wpts := make([]wt.Point, len(pts))
		for k, p := range pts {
			wpts[k] = wt.Point{Time: wt.Timestamp(p.T), Value: wt.Value(p.V)}
		}
		callErr, pan = callSafely(func() error {
			if op.ID == -1 && op.Implicit {
				return lr.db.UpdateMany(wpts) // the public wrapper
			}
			return lr.db.UpdatePointsForArchive(wpts, op.ID, nowArg)
		})
	default:
		e.Skip("invalid-case")
		return false
	}
	if pan != "" {
		if lr.prop == "C02" {
			e.Violate("C02.no-panic", "%s(id=%d, %d points) panicked: %s", op.Op, op.ID, len(pts), pan)
		} else {
			e.Skip("foreign-panic-in-update")
		}
		return false
	}
	post, err := allRaw(lr.db, len(lr.archs))
	if err != nil {
		e.Violate(lr.prop+".raw", "GetAllRawUnsortedPoints failed: %v", err)
		return false
	}
	switch lr.prop {
	case "C01":
		lr.c01Write(op, pts, now, pre, post, callErr)
	case "C02":
		lr.c02Write(op, pts, now, pre, post, callErr)
	case "C03":
		lr.c03Write(op, pts, now, pre, post, callErr)
	case "C06":
		lr.c06Write(op, pts, now, callErr)
	}
	return !e.Failed()
}

func (lr *libRun) atSync() {
	if lr.prop != "C01" && lr.prop != "C06" {
		return
	}
	// cross-check the handle's raw view against the independent byte parser
	b := readFile(lr.path)
	f, err := model.ParseFile(b)
	if err != nil {
		if lr.prop == "C06" {
			lr.e.Violate("C06.format", "synced file is not classic Whisper: %v", err)
		} else {
			lr.e.Skip("format-parse-failed")
		}
		return
	}
	raws, err := allRaw(lr.db, len(lr.archs))
	if err != nil {
		return
	}
	for a := range raws {
		if len(f.Archives) <= a || int64(len(f.Archives[a])) != lr.archs[a].N {
			lr.e.Violate(lr.prop+".raw-vs-bytes", "archive %d: parsed %d slots", a, len(f.Archives))
			return
		}
		if i, ok := rawEqual(raws[a], f.Archives[a]); !ok {
			lr.e.Violate(lr.prop+".raw-vs-bytes", "archive %d slot %d: handle reports (%d,%v), synced bytes hold (%d,%v)",
				a, i, raws[a][i].I, raws[a][i].V, f.Archives[a][i].I, f.Archives[a][i].V)
			return
		}
	}
	if lr.prop == "C06" {
		lr.c06AtSync(b, f)
	}
}

func (lr *libRun) rebaseAfterAbandon() {
	if lr.prop != "C01" {
		return
	}
	// rebuild the archive-0 shadow from what is on disk now
	raw, err := rawOf(lr.db, 0)
	if err != nil {
		return
	}
	a := lr.archs[0]
	lr.shadow = map[int64]model.Slot{}
	for _, s := range raw {
		if s.I != 0 {
			lr.shadow[model.FloorMod(s.I/a.S, a.N)] = s
		}
	}
}

// afterStep evaluates the read-side oracles.
func (lr *libRun) afterStep(i int) {
	switch lr.prop {
	case "C01":
		lr.c01Reads()
	case "C06":
		lr.c06Reads()
	}
	if lr.db != nil {
		// abstract state: raw contents relative to now
		h := uint64(1469598103934665603)
		now := Now()
		for a := range lr.archs {
			raw, err := rawOf(lr.db, a)
			if err != nil {
				return
			}
			for k, s := range raw {
				if s.I != 0 {
					h = (h ^ uint64(a*1000003+k)) * 1099511628211
					h = (h ^ uint64(now-s.I)) * 1099511628211
					h = (h ^ math.Float64bits(s.V)) * 1099511628211
				}
			}
		}
		lr.e.State(h)
	}
}

// ---------------------------------------------------------------------------
// C01

func (lr *libRun) c01Write(op LibOp, pts []model.Pt, now int64, pre, post []model.Raw, callErr error) {
	e := lr.e
	id := op.ID
	a := lr.archs[id]
	var writes []model.Slot
	if op.Op == "upd" {
		if !model.SingleAccepted(lr.archs, pts[0].T, now) {
			// acceptance is C03's business; nothing to check unless it wrote
			return
		}
		if callErr != nil {
			e.Skip("c01-single-update-error")
			return
		}
		writes = []model.Slot{{I: model.Floor(pts[0].T, a.S), V: pts[0].V}}
	} else {
		if callErr != nil {
			e.Violate("C01.write-error", "UpdatePointsForArchive(id=%d) failed: %v", id, callErr)
			return
		}
		shares, _ := model.RouteBatch(lr.archs, pts, id, now)
		writes = model.Align(a, shares[id])
		if len(writes) != len(pts) {
			// some points were out of the archive's range: what happens to
			// such a batch is C03's business; re-base the shadow and go on.
			e.Note("c01-batch-with-out-of-range-points")
			lr.rebaseAfterAbandon()
			return
		}
	}
	if len(writes) == 0 {
		return
	}
	want := model.Place(a, pre[id], writes)
	if i, ok := rawEqual(want, post[id]); !ok {
		e.Violate("C01.placement", "archive %d (%ds x %d) after %s of %d point(s): physical slot %d holds (%d,%v), ring model expects (%d,%v); base interval before the write %d",
			id, a.S, a.N, op.Op, len(writes), i, post[id][i].I, post[id][i].V, want[i].I, want[i].V, pre[id][0].I)
		return
	}
	// finer archives are never touched by a write to archive id
	for f := 0; f < id; f++ {
		if i, ok := rawEqual(pre[f], post[f]); !ok {
			e.Violate("C01.placement", "write to archive %d changed slot %d of the finer archive %d", id, i, f)
			return
		}
	}
	if id == 0 {
		for _, w := range writes {
			lr.shadow[model.FloorMod(w.I/a.S, a.N)] = w
		}
	}
	for _, w := range writes {
		if w.I < pre[id][0].I && pre[id][0].I != 0 {
			e.Probe("write-before-base-interval")
		}
		if w.I > now {
			e.Probe("future-point-in-batch")
		}
		if now-w.I >= a.R() {
			e.Probe("write-older-than-archive-retention")
		}
	}
	if a.N <= 2 {
		e.Probe("ring-of-1-2-slots")
	}
}

type window struct{ from, until int64 }

func (lr *libRun) windowsFor(a model.Arch, now int64) []window {
	r := lr.wr
	ws := []window{{now - a.R(), now}}
	for k := 0; k < lr.c.Windows; k++ {
		f := now - a.R() + r.Int64N(a.R()+1)
		u := f + r.Int64N(now-f+1)
		ws = append(ws, window{f, u})
	}
	// degenerate and sub-step windows
	f := now - r.Int64N(a.R()+1)
	ws = append(ws, window{f, f})
	ws = append(ws, window{f, f + r.Int64N(a.S)})
	// windows reaching beyond both edges
	ws = append(ws, window{now - a.R() - r.Int64N(3*a.S+1), now + r.Int64N(3*a.S+1)})
	// from = 0
	ws = append(ws, window{0, now - r.Int64N(a.R()+1)})
	return ws
}

func (lr *libRun) c01Reads() {
	e := lr.e
	if lr.db == nil {
		return
	}
	now := Now()
	for id, a := range lr.archs {
		raw, err := rawOf(lr.db, id)
		if err != nil {
			e.Violate("C01.raw", "GetAllRawUnsortedPoints(%d) failed: %v", id, err)
			return
		}
		ws := lr.windowsFor(a, now)
		for wi, w := range ws {
			if w.from > w.until || w.from < 0 {
				continue
			}
			var ts *wt.TimeSeries
			err, pan := callSafely(func() error {
				var err error
				ts, err = lr.db.FetchFromArchive(id, wt.Timestamp(w.from), wt.Timestamp(w.until), wt.Timestamp(now))
				return err
			})
			if pan != "" {
				e.Violate("C01.fetch-panic", "FetchFromArchive(%d, now-%d, now-%d) panicked: %s", id, now-w.from, now-w.until, pan)
				return
			}
			if err != nil && model.Shape(lr.archs, id, w.from, w.until, now).Kind == model.ShapeSeries {
				// which windows give a series is C04's contract; a window that does
				// and whose fetch fails on a file this history wrote reports no slot at all
				e.Violate("C01.projection", "FetchFromArchive(%d, now-%d, now-%d) failed on a file written by this history alone: %v", id, now-w.from, now-w.until, err)
				return
			}
			if err != nil || ts == nil {
				continue // shape is C04's business
			}
			lr.c01CheckSeries(id, a, raw, ts, now, w)
			if e.Failed() {
				return
			}
			if wi == 0 {
				lr.c01WrapProbe(id, a, raw, ts)
			}
		}
	}
	// best-archive fetch
	w := lr.windowsFor(lr.archs[len(lr.archs)-1], now)[1]
	wt.Now = time.Now
	ts, err := lr.db.Fetch(wt.Timestamp(w.from), wt.Timestamp(w.until))
	if err == nil && ts != nil {
		for id, a := range lr.archs {
			if int64(ts.Step()) == a.S {
				raw, err := rawOf(lr.db, id)
				if err == nil {
					lr.c01CheckSeries(id, a, raw, ts, now, w)
				}
			}
		}
	}
}

func (lr *libRun) c01WrapProbe(id int, a model.Arch, raw model.Raw, ts *wt.TimeSeries) {
	if raw[0].I == 0 || len(ts.Values()) == 0 {
		return
	}
	fi := model.Index(a, raw[0].I, int64(ts.FromTime()))
	if fi+int64(len(ts.Values())) > a.N {
		lr.e.Probe("fetch-wraps-around-end-of-archive")
	}
	if int64(len(ts.Values())) > a.N {
		lr.e.Probe("window-spans-more-than-N-intervals")
	}
	off := int64(16+12*len(lr.archs)) + 0
	for k := 0; k < id; k++ {
		off += 12 * lr.archs[k].N
	}
	if (off+12*a.N)/4096 != off/4096 {
		lr.e.Probe("archive-crosses-page-boundary")
	}
}

func (lr *libRun) c01CheckSeries(id int, a model.Arch, raw model.Raw, ts *wt.TimeSeries, now int64, w window) {
	e := lr.e
	F := int64(ts.FromTime())
	vals := ts.Values()
	stale := false
	for i, v := range vals {
		T := F + int64(i)*a.S
		want := model.Project(a, raw, T)
		if !model.SameValue(float64(v), want) {
			e.Violate("C01.projection", "archive %d (%ds x %d), window (now-%d, now-%d], instant now-%d (index %d): fetched %v, the slot of that interval holds (%d,%v) so the ring model expects %v",
				id, a.S, a.N, now-w.from, now-w.until, now-T, i, float64(v), slotAt(a, raw, T).I, slotAt(a, raw, T).V, want)
			return
		}
		if raw[0].I != 0 {
			s := slotAt(a, raw, T)
			if s.I != 0 && s.I != T {
				stale = true
			}
		}
		if id == 0 {
			// end-to-end shadow of the finest archive (nothing propagates into it)
			sw, ok := lr.shadow[model.FloorMod(T/a.S, a.N)]
			wantS := math.NaN()
			if ok && sw.I == T {
				wantS = sw.V
			}
			if !model.SameValue(float64(v), wantS) {
				e.Violate("C01.last-write", "archive 0, instant now-%d: fetched %v, the most recent write to that slot was (%d,%v) so %v is expected",
					now-T, float64(v), sw.I, sw.V, wantS)
				return
			}
		}
	}
	if stale {
		e.Probe("stale-lap-slot-read-as-NaN")
	}
}

func slotAt(a model.Arch, raw model.Raw, T int64) model.Slot {
	if raw[0].I == 0 {
		return model.Slot{}
	}
	return raw[model.Index(a, raw[0].I, T)]
}

// ---------------------------------------------------------------------------
// C02

func (lr *libRun) c02Write(op LibOp, pts []model.Pt, now int64, pre, post []model.Raw, callErr error) {
	e := lr.e
	id := op.ID
	for _, p := range pts {
		if math.IsInf(p.V, 0) {
			return
		}
	}
	if id < 0 {
		// best-archive writes are judged when the routing model sends every
		// point to one and the same archive (nothing dropped, nothing in the
		// future): the call then is one write plus one propagation chain
		if op.Op == "upd" {
			if !model.SingleAccepted(lr.archs, pts[0].T, now) {
				return
			}
			id = model.SingleTarget(lr.archs, pts[0].T, now)
		} else {
			shares, dropped := model.RouteBatch(lr.archs, pts, -1, now)
			if len(dropped) > 0 {
				return
			}
			for _, p := range pts {
				if p.T > now {
					return
				}
			}
			id = -1
			multi := false
			for a, sh := range shares {
				if len(sh) > 0 {
					if id >= 0 {
						multi = true
					}
					id = a
				}
			}
			if id < 0 {
				return
			}
			if multi {
				if callErr == nil {
					lr.c02Multi(shares, pre, post)
				}
				return
			}
		}
		e.Probe("best-routed-write-judged")
	}
	a := lr.archs[id]
	var writes []model.Slot
	if op.Op == "upd" {
		if !model.SingleAccepted(lr.archs, pts[0].T, now) || callErr != nil {
			return
		}
		writes = []model.Slot{{I: model.Floor(pts[0].T, a.S), V: pts[0].V}}
	} else {
		if callErr != nil {
			e.Violate("C02.write-error", "UpdatePointsForArchive(id=%d) failed: %v", id, callErr)
			return
		}
		shares, _ := model.RouteBatch(lr.archs, pts, id, now)
		writes = model.Align(a, shares[id])
		if len(writes) != len(pts) {
			return // batches with out-of-range points are C03's business
		}
	}
	if len(writes) == 0 {
		return
	}
	// touched intervals of the written archive, in time order
	var touched []int64
	for _, w := range writes {
		touched = append(touched, w.I)
	}
	method, xff := lr.c.Layout.Method, lr.c.Layout.Xff
	for lvl := id + 1; lvl < len(lr.archs); lvl++ {
		fine, coarse := lr.archs[lvl-1], lr.archs[lvl]
		var ct []int64
		for _, I := range touched {
			ct = append(ct, model.Floor(I, coarse.S))
		}
		ct = model.DedupeConsecutive(ct)
		plan := model.PropagatePlan(fine, post[lvl-1], coarse, ct, method, xff)
		want := pre[lvl].Clone()
		valueFree := map[int64]bool{} // slots whose value is not prescribed (aggregate over a NaN)
		var stored []int64
		base := want[0].I
		for _, st := range plan {
			verdict := st.Verdict
			if base == 0 {
				// first write to a never-written coarse archive: the position
				// of its base slot is not fixed by the statement; take the
				// observed base and require the slot content.
				base = post[lvl][0].I
				if base == 0 {
					base = st.T
				}
			}
			idx := model.Index(coarse, base, st.T)
			if st.Known > 0 && model.XffBoundary(int64(st.Known), int64(st.Total), xff) {
				e.Probe("xff-boundary-where-float32-and-rational-differ")
			}
			if verdict > 0 && math.IsNaN(st.Value) && (method == 4 || method == 5) {
				// a written NaN counts as a known value (its interval matches), as in
				// both Whisper implementations. Sum, average, last and first of a set
				// containing NaN are fixed by floating-point arithmetic (NaN, NaN, the
				// last, the first value) and are compared like any other aggregate;
				// what the maximum or minimum of such a set is, the statement does not
				// say: only "stored" is checked
				e.Probe("aggregate-over-a-written-NaN")
				want[idx] = model.Slot{I: st.T, V: math.NaN()}
				valueFree[idx] = true
				stored = append(stored, st.T)
				continue
			}
			if verdict > 0 {
				want[idx] = model.Slot{I: st.T, V: st.Value}
				valueFree[idx] = false
				stored = append(stored, st.T)
				e.Probe(fmt.Sprintf("stored/%s/level%d", methodName(method), lvl))
				if int64(st.Known)*1_000_000 == int64(math.Round(xff*float64(st.Total)*1_000_000)) && xff > 0 {
					e.Probe("known-fraction-exactly-at-xff")
				}
			} else if st.Known == 0 {
				e.Probe("skipped/zero-known")
			} else {
				e.Probe("skipped/xff")
			}
		}
		for k := range valueFree {
			if valueFree[k] && post[lvl][k].I == want[k].I {
				want[k].V = post[lvl][k].V
			}
		}
		if i, ok := rawEqual(want, post[lvl]); !ok {
			var st *model.PropStep
			for k := range plan {
				if base != 0 && model.Index(coarse, base, plan[k].T) == int64(i) {
					st = &plan[k]
				}
			}
			detail := "slot not covering a written point"
			if st != nil {
				detail = fmt.Sprintf("coarse interval %d: %d of %d finer slots known, verdict %d, aggregate %v", st.T, st.Known, st.Total, st.Verdict, st.Value)
			}
			e.Violate("C02.propagate", "after %s to archive %d, level %d (%ds x %d, %s, xff %v): physical slot %d holds (%d,%v), model expects (%d,%v); %s",
				op.Op, id, lvl, coarse.S, coarse.N, methodName(method), xff, i, post[lvl][i].I, post[lvl][i].V, want[i].I, want[i].V, detail)
			return
		}
		touched = stored
		if len(touched) == 0 {
			// remaining levels must be untouched
			for l2 := lvl + 1; l2 < len(lr.archs); l2++ {
				if i, ok := rawEqual(pre[l2], post[l2]); !ok {
					e.Violate("C02.propagate", "level %d slot %d changed although nothing was stored at level %d", l2, i, lvl)
					return
				}
			}
			break
		}
	}
}

// ---------------------------------------------------------------------------
// C03

func (lr *libRun) c03Write(op LibOp, pts []model.Pt, now int64, pre, post []model.Raw, callErr error) {
	e := lr.e
	archs := lr.archs
	changed := func(a int) []int {
		var out []int
		for i := range pre[a] {
			if pre[a][i].I != post[a][i].I || !model.SameValue(pre[a][i].V, post[a][i].V) {
				out = append(out, i)
			}
		}
		return out
	}
	// direct[a] = aligned intervals expected to be written directly in a
	futureTouched := make([][]int64, len(archs))
	direct := make([]map[int64]float64, len(archs))
	touchedAll := make([]map[int64]bool, len(archs)) // every routed interval, overwritten laps included
	for a := range direct {
		direct[a] = map[int64]float64{}
		touchedAll[a] = map[int64]bool{}
	}
	if op.Op == "upd" {
		t := pts[0].T
		acc := model.SingleAccepted(archs, t, now)
		age := now - t
		for _, a := range archs {
			if age == a.R() || age == a.R()-1 || age == a.R()+1 {
				e.Probe("single-update-at-retention-boundary")
			}
		}
		if acc != (callErr == nil) {
			e.Violate("C03.accept", "single update with age %d (max retention %d): accepted=%v, statement says %v (error: %v)",
				age, archs[len(archs)-1].R(), callErr == nil, acc, callErr)
			return
		}
		if !acc {
			for a := range archs {
				if ch := changed(a); len(ch) > 0 {
					e.Violate("C03.accept", "rejected single update changed archive %d slot %d", a, ch[0])
					return
				}
			}
			return
		}
		tgt := op.ID
		if tgt < 0 {
			tgt = model.SingleTarget(archs, t, now)
		}
		direct[tgt][model.Floor(t, archs[tgt].S)] = pts[0].V
		touchedAll[tgt][model.Floor(t, archs[tgt].S)] = true
	} else {
		if callErr != nil {
			e.Violate("C03.batch-error", "UpdatePointsForArchive(id=%d) failed: %v", op.ID, callErr)
			return
		}
		// future-dated points: the statement does not say what happens to them,
		// but the in-range points of the same batch must still be stored. They
		// are taken out of the routed set; the slots they may have written (in
		// any archive) and their propagation targets are allowed to change, and
		// an in-range point sharing a physical slot with one of them is not
		// looked for.
		var future []model.Pt
		var normal []model.Pt
		for _, p := range pts {
			if p.T > now {
				future = append(future, p)
			} else {
				normal = append(normal, p)
			}
		}
		if len(future) > 0 {
			e.Probe("batch-with-a-future-dated-point")
		}
		pts = normal
		for a := range archs {
			for _, f := range future {
				futureTouched[a] = append(futureTouched[a], model.Floor(f.T, archs[a].S))
			}
		}
		shares, dropped := model.RouteBatch(archs, pts, op.ID, now)
		nsh := 0
		for a, sh := range shares {
			if len(sh) > 0 {
				nsh++
			}
			// time-then-supply order: the last point falling into a physical
			// slot wins (equal intervals and intervals one or more laps apart)
			bySlot := map[int64]int64{}
			for _, p := range sh {
				I := model.Floor(p.T, archs[a].S)
				k := model.FloorMod(I/archs[a].S, archs[a].N)
				if old, ok := bySlot[k]; ok && old != I {
					delete(direct[a], old)
					e.Probe("batch-with-two-laps-of-one-slot")
				}
				bySlot[k] = I
				direct[a][I] = p.V
				touchedAll[a][I] = true
			}
		}
		if nsh >= 3 {
			e.Probe("batch-spanning-3-archives")
		}
		if len(dropped) == 1 && len(pts) > 1 {
			e.Probe("batch-with-exactly-one-stale-point")
		}
		if len(dropped) > 0 && len(dropped) < len(pts) {
			e.Probe("batch-mixing-stale-and-fresh")
		}
	}
	// (1) every direct write is found in its slot
	for a, m := range direct {
		base := post[a][0].I
		for I, v := range m {
			overlap := false
			for f := 0; f < a; f++ {
				for If := range touchedAll[f] {
					if model.Floor(If, archs[a].S) == I {
						overlap = true
					}
				}
			}
			if overlap {
				e.Note("c03-direct-write-is-also-propagation-target")
				continue
			}
			collides := false
			for f := 0; f <= a; f++ {
				for _, If := range futureTouched[f] {
					if model.FloorMod(model.Floor(If, archs[a].S)/archs[a].S, archs[a].N) == model.FloorMod(I/archs[a].S, archs[a].N) {
						collides = true
					}
				}
			}
			if collides {
				continue
			}
			if base == 0 {
				e.Violate("C03.route", "point for interval %d (age %d) expected in archive %d, which is still empty after the call", I, now-I, a)
				return
			}
			got := post[a][model.Index(archs[a], base, I)]
			if got.I != I || !model.SameValue(got.V, v) {
				where := "no other archive"
				for b := range archs {
					Ib := model.Floor(I, archs[b].S)
					if b != a && slotAt(archs[b], post[b], Ib).I == Ib && !(slotAt(archs[b], pre[b], Ib).I == Ib && model.SameValue(slotAt(archs[b], pre[b], Ib).V, slotAt(archs[b], post[b], Ib).V)) {
						where = fmt.Sprintf("archive %d", b)
					}
				}
				e.Violate("C03.route", "%s id=%d now-relative ages %v: the point of interval now-%d with value %v belongs in archive %d (%ds x %d) but its slot holds (%d,%v); it appeared in %s",
					op.Op, op.ID, agesOf(pts, now), now-I, v, a, archs[a].S, archs[a].N, got.I, got.V, where)
				return
			}
		}
	}
	// (2) changed slots are direct writes or propagation targets of them
	for a := range archs {
		allowed := map[int64]bool{}
		for I := range direct[a] {
			allowed[I] = true
		}
		for f := 0; f < a; f++ {
			for I := range touchedAll[f] {
				allowed[model.Floor(I, archs[a].S)] = true
			}
		}
		for f := 0; f <= a; f++ {
			for _, I := range futureTouched[f] {
				allowed[model.Floor(I, archs[a].S)] = true
			}
		}
		for _, i := range changed(a) {
			if !allowed[post[a][i].I] {
				e.Violate("C03.route", "%s id=%d ages %v: archive %d slot %d changed to (%d,%v), which is neither a routed point nor a propagation target",
					op.Op, op.ID, agesOf(pts, now), a, i, post[a][i].I, post[a][i].V)
				return
			}
		}
	}
}

func agesOf(pts []model.Pt, now int64) []int64 {
	out := make([]int64, len(pts))
	for i, p := range pts {
		out[i] = now - p.T
	}
	if len(out) > 12 {
		out = out[:12]
	}
	return out
}

// ---------------------------------------------------------------------------
// helpers shared with other simulations

func fetchWhole(db *wt.Whisper, id int, a model.Arch, now int64) ([]float64, int64, error) {
	ts, err := db.FetchFromArchive(id, wt.Timestamp(now-a.R()), wt.Timestamp(now), wt.Timestamp(now))
	if err != nil {
		return nil, 0, err
	}
	if ts == nil {
		return nil, 0, nil
	}
	vals := make([]float64, len(ts.Values()))
	for i, v := range ts.Values() {
		vals[i] = float64(v)
	}
	return vals, int64(ts.FromTime()), nil
}

func sameSeries(a, b []float64) (int, bool) {
	if len(a) != len(b) {
		return -1, false
	}
	for i := range a {
		if !model.SameValue(a[i], b[i]) {
			return i, false
		}
	}
	return 0, true
}

func copyFile(dst, src string) error {
	b, err := os.ReadFile(src)
	if err != nil {
		return err
	}
	return os.WriteFile(dst, b, 0o644)
}

var _ = bytes.Equal

// c02Multi judges a best-routed batch whose points went to two or more
// archives. Whatever the order of writes and recomputations inside the call,
// when it returns every coarser slot covering a point that was written or
// recomputed one level below holds the aggregate of what that level holds now
// (unless the batch wrote the slot directly), provided the known fraction
// reaches xFilesFactor.
func (lr *libRun) c02Multi(shares [][]model.Pt, pre, post []model.Raw) {
	e := lr.e
	method, xff := lr.c.Layout.Method, lr.c.Layout.Xff
	direct := make([]map[int64]bool, len(lr.archs))
	for a := range lr.archs {
		direct[a] = map[int64]bool{}
		for _, w := range model.Align(lr.archs[a], shares[a]) {
			direct[a][w.I] = true
		}
	}
	// intervals written or stored at the previous level
	prev := direct[0]
	for lvl := 1; lvl < len(lr.archs); lvl++ {
		fine, coarse := lr.archs[lvl-1], lr.archs[lvl]
		touched := map[int64]bool{}
		for I := range prev {
			touched[model.Floor(I, coarse.S)] = true
		}
		// two intervals of this level sharing a ring slot: the outcome depends on
		// the order inside the call, which the statement does not fix
		slots := map[int64]int64{}
		for T := range touched {
			slots[model.FloorMod(T/coarse.S, coarse.N)]++
		}
		for I := range direct[lvl] {
			if !touched[I] {
				slots[model.FloorMod(I/coarse.S, coarse.N)]++
			}
		}
		for _, n := range slots {
			if n > 1 {
				e.Note("multi-archive-batch-with-ring-collision")
				return
			}
		}
		// a write one level below (direct or recomputed) that took the ring slot of
		// another lap removed a value from a coarse interval recomputed earlier in
		// the call
		if pb := pre[lvl-1][0].I; pb != 0 {
			for I := range prev {
				old := pre[lvl-1][model.Index(fine, pb, I)]
				if old.I != 0 && old.I != I && touched[model.Floor(old.I, coarse.S)] {
					e.Note("multi-archive-batch-with-ring-collision")
					return
				}
			}
		}
		next := map[int64]bool{}
		for I := range direct[lvl] {
			next[I] = true
		}
		var ts []int64
		for T := range touched {
			ts = append(ts, T)
		}
		sort.Slice(ts, func(i, j int) bool { return ts[i] < ts[j] })
		for _, T := range ts {
			if direct[lvl][T] {
				continue
			}
			plan := model.PropagatePlan(fine, post[lvl-1], coarse, []int64{T}, method, xff)
			st := plan[0]
			if st.Known == 0 || st.Verdict <= 0 {
				continue
			}
			next[T] = true
			base := post[lvl][0].I
			if base == 0 {
				e.Violate("C02.propagate", "batch spread over several archives: level %d (%ds x %d) is still empty although coarse interval %d has %d of %d finer slots known (xff %v)", lvl, coarse.S, coarse.N, T, st.Known, st.Total, xff)
				return
			}
			got := post[lvl][model.Index(coarse, base, T)]
			valueFree := math.IsNaN(st.Value) && (method == 4 || method == 5)
			if got.I != T || (!valueFree && !model.SameValue(got.V, st.Value)) {
				e.Violate("C02.propagate", "batch spread over several archives: level %d (%ds x %d, %s, xff %v) slot of coarse interval %d holds (%d,%v); the %d known of %d finer slots it covers now aggregate to %v",
					lvl, coarse.S, coarse.N, methodName(method), xff, T, got.I, got.V, st.Known, st.Total, st.Value)
				return
			}
		}
		e.Probe("multi-archive-batch-judged")
		prev = next
	}
}
