package engine

import (
	"crypto/sha256"
	"encoding/json"
	"fmt"
	"math"
	"math/rand/v2"
	"os"
	"sort"
	"strconv"
	"strings"
	"testing"
	"time"
)

// Violation is one oracle failure.
type Violation struct {
	Oracle  string `json:"oracle"`
	Message string `json:"message"`
	AtOp    int    `json:"at_op"`
}

// SchedRec is the explicit schedule of a run.
type SchedRec struct {
	Seed     uint64   `json:"seed"`
	PreemptP float64  `json:"preempt_p"`
	Replay   bool     `json:"replay"`
	Choices  []int    `json:"choices,omitempty"`
	Preempts []string `json:"preempts,omitempty"`
}

// Trace is the replay file format.
type Trace struct {
	V         int             `json:"v"`
	Property  string          `json:"property"`
	Sim       string          `json:"sim"`
	Seed      uint64          `json:"seed"`
	Index     int             `json:"index"`
	Case      json.RawMessage `json:"case"`
	Sched     *SchedRec       `json:"sched,omitempty"`
	Violation *Violation      `json:"violation,omitempty"`
}

// Stats accumulates what the runs of one worker covered.
type Stats struct {
	ResumeAt    int               `json:"resume_at,omitempty"` // the worker stopped after this many of its runs (a deadlocked run left goroutines behind); the driver starts a new process for the rest
	Runs        int               `json:"runs"`
	Ops         int64             `json:"ops"`
	SimSeconds  int64             `json:"sim_seconds"`
	Faults      map[string]int64  `json:"faults"`
	Probes      map[string]int64  `json:"probes"`
	States      map[uint64]bool   `json:"-"`
	StatesN     int               `json:"states"`
	Interleave  map[uint64]bool   `json:"-"`
	InterleaveN int               `json:"interleavings"`
	Nontrivial  map[uint64]bool   `json:"-"`
	NontrivialN int               `json:"nontrivial"`
	Yields      int64             `json:"yields"`
	Decisions   int64             `json:"decisions"`
	Skipped     map[string]int64  `json:"skipped"`
	Samples     []json.RawMessage `json:"samples"`
	Sites       map[int]int64     `json:"-"`
	StateHashes []uint64          `json:"state_hashes,omitempty"`
	InterHashes []uint64          `json:"inter_hashes,omitempty"`
	NontrHashes []uint64          `json:"nontr_hashes,omitempty"`
	SiteHits    map[string]int64  `json:"site_hits,omitempty"`
	Known       map[string]int64  `json:"known"`
	KnownSample map[string]string `json:"known_sample,omitempty"`
	WallS       float64           `json:"wall_s"`
}

func newStats() *Stats {
	return &Stats{
		Faults: map[string]int64{}, Probes: map[string]int64{}, States: map[uint64]bool{},
		Interleave: map[uint64]bool{}, Nontrivial: map[uint64]bool{}, Skipped: map[string]int64{},
		Sites: map[int]int64{}, Known: map[string]int64{}, KnownSample: map[string]string{},
	}
}

// Env is what a simulation sees of one run.
type Env struct {
	T        *testing.T
	Prop     string
	Tier     string
	Seed     uint64
	Dir      string // world directory of this run (removed afterwards)
	Stats    *Stats
	Viol     *Violation
	opIndex  int
	nontriv  bool
	SchedRec *SchedRec // non-nil when replaying a recorded schedule
	OutSched *SchedRec // schedule recorded by this run
	caseHash uint64
	Cover    []uint32
	After    []func() // run after the bubble has ended (real time available)
	Log      []string // event log (determinism self-test)
	Logging  bool

	inTickRetry bool
}

// Violate records the first violation of the run.
func (e *Env) Violate(oracle, format string, args ...interface{}) {
	if e.Viol == nil {
		msg := fmt.Sprintf(format, args...)
		if e.Dir != "" {
			// the run's scratch directory differs from process to process
			msg = strings.ReplaceAll(msg, e.Dir, "<run-dir>")
		}
		e.Viol = &Violation{Oracle: oracle, Message: msg, AtOp: e.opIndex}
	}
}

// Failed reports whether a violation was recorded.
func (e *Env) Failed() bool { return e.Viol != nil }

// Op marks the start of operation i.
func (e *Env) Op(i int) { e.opIndex = i; e.Stats.Ops++ }

// Fault counts a fault that actually fired.
func (e *Env) Fault(kind string) { e.Stats.Faults[kind]++ }

// Probe counts an interesting condition that was reached.
func (e *Env) Probe(name string) { e.Stats.Probes[name]++; e.nontriv = true }

// Note counts without marking the run non-trivial.
func (e *Env) Note(name string) { e.Stats.Probes[name]++ }

// Skip counts a generated case (or part of it) that was not judged.
func (e *Env) Skip(why string) { e.Stats.Skipped[why]++ }

// State records an abstract state hash.
func (e *Env) State(h uint64) {
	if len(e.Stats.States) < 2_000_000 {
		e.Stats.States[h] = true
	}
}

// Logf appends to the event log when logging is on. It never draws from a
// PRNG and never reads a real clock.
func (e *Env) Logf(format string, args ...interface{}) {
	if e.Logging {
		e.Log = append(e.Log, fmt.Sprintf(format, args...))
	}
}

// Now returns the simulated clock as Unix seconds.
func Now() int64 { return time.Now().Unix() }

// SetClock advances the bubble's clock to the given Unix time (never back).
func SetClock(e *Env, unix int64) {
	if unix > math.MaxInt32 {
		e.Note("clock-after-2038")
	}
	d := time.Unix(unix, 0).Sub(time.Now())
	if d > 0 {
		time.Sleep(d)
	}
}

// Advance moves the simulated clock forward by d seconds.
func Advance(e *Env, d int64) {
	if d > 0 {
		time.Sleep(time.Duration(d) * time.Second)
		e.Stats.SimSeconds += d
	}
}

// ---------------------------------------------------------------------------
// PRNG helpers

func splitmix64(x uint64) uint64 {
	x += 0x9e3779b97f4a7c15
	z := x
	z = (z ^ (z >> 30)) * 0xbf58476d1ce4e5b9
	z = (z ^ (z >> 27)) * 0x94d049bb133111eb
	return z ^ (z >> 31)
}

// RunSeed derives the seed of run i of property prop from VERIF_SEED.
func RunSeed(verifSeed uint64, prop string, i int) uint64 {
	h := splitmix64(verifSeed)
	h = splitmix64(h ^ hashStr(prop))
	return splitmix64(h ^ uint64(i)*0x100000001b3)
}

func newRng(seed uint64) *rand.Rand { return rand.New(rand.NewPCG(seed, 0xda3e39cb94b95bdb)) }

func pick[T any](r *rand.Rand, xs ...T) T { return xs[r.IntN(len(xs))] }

func chance(r *rand.Rand, p float64) bool { return r.Float64() < p }

func between(r *rand.Rand, lo, hi int64) int64 {
	if hi <= lo {
		return lo
	}
	return lo + r.Int64N(hi-lo+1)
}

// ---------------------------------------------------------------------------
// values that survive JSON

// FV is a float64 that marshals as a string so that NaN and Inf survive.
type FV float64

func (v FV) MarshalJSON() ([]byte, error) {
	return json.Marshal(fvString(float64(v)))
}

func fvString(f float64) string {
	if math.IsNaN(f) {
		return "NaN"
	}
	return strconv.FormatFloat(f, 'g', -1, 64)
}

func (v *FV) UnmarshalJSON(b []byte) error {
	var s string
	if err := json.Unmarshal(b, &s); err != nil {
		var f float64
		if err2 := json.Unmarshal(b, &f); err2 != nil {
			return err
		}
		*v = FV(f)
		return nil
	}
	f, err := strconv.ParseFloat(s, 64)
	if err != nil {
		return err
	}
	*v = FV(f)
	return nil
}

func sameBits(a, b float64) bool {
	if math.IsNaN(a) && math.IsNaN(b) {
		return true
	}
	return math.Float64bits(a) == math.Float64bits(b)
}

func hashBytes(b []byte) uint64 {
	h := sha256.Sum256(b)
	var x uint64
	for i := 0; i < 8; i++ {
		x = x<<8 | uint64(h[i])
	}
	return x
}

func sha(b []byte) string {
	h := sha256.Sum256(b)
	return fmt.Sprintf("%x", h[:8])
}

func readFile(path string) []byte {
	b, err := os.ReadFile(path)
	if err != nil {
		return nil
	}
	return b
}

func sortedKeys[V any](m map[string]V) []string {
	ks := make([]string, 0, len(m))
	for k := range m {
		ks = append(ks, k)
	}
	sort.Strings(ks)
	return ks
}

func trunc(s string, n int) string {
	if len(s) > n {
		return s[:n] + "…"
	}
	return s
}

func oneLine(s string) string { return strings.ReplaceAll(strings.TrimSpace(s), "\n", " | ") }
