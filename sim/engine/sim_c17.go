package engine

import (
	"context"
	"encoding/binary"
	"encoding/json"
	"fmt"
	"io"
	"math"
	"math/rand/v2"
	"net/http"
	"os"
	"path/filepath"
	"sync"

	wt "github.com/hnakamur/whispertool"

	"wsim/model"
)

// C17: concurrent reads equal sequential reads.
//   mode "handle": K actors fetch on one shared handle under the scheduler
//   mode "sum":    the errgroup workers of sum are interleaved
//   mode "server": K clients issue requests in parallel, handlers interleaved
// The same cases are also executed free-running under the race detector
// (runRace), which is runtime monitoring, not simulation.

type C17Case struct {
	Mode       string       `json:"mode"`
	Layout     Layout       `json:"layout"`
	Clock0     int64        `json:"clock0"`
	Files      []WFile      `json:"files"`
	Queries    [][]C04Query `json:"queries,omitempty"`     // per actor (mode handle)
	Cmds       []Cmd        `json:"cmds,omitempty"`        // modes sum, server
	Raw        []string     `json:"raw,omitempty"`         // mode server: raw request paths (with query) issued by extra clients
	DamageArch int          `json:"damage_arch,omitempty"` // mode handle: 1+k: the base interval of archive k is made misaligned before the handles are opened (fetches of that archive fail, the others must not care)
	Cancel     []int        `json:"cancel,omitempty"`      // mode server: raw requests whose client gives up (closes its connection) at a seeded moment
	PreemptP   float64      `json:"preempt_p"`
	SchedSeed  uint64       `json:"sched_seed"`
}

type c17Sim struct{}

func (c17Sim) Name() string { return "c17" }

func (c17Sim) Decode(raw json.RawMessage) (interface{}, error) {
	var c C17Case
	if err := json.Unmarshal(raw, &c); err != nil {
		return nil, err
	}
	return &c, nil
}

func (c17Sim) Gen(prop, tier string, r *rand.Rand) interface{} {
	l := genLayout(r, pick(r, "small", "small", "four", "page", "edge"))
	c := &C17Case{Layout: l, Clock0: genClock0(r, l), SchedSeed: r.Uint64()}
	c.PreemptP = pick(r, 0.005, 0.02, 0.05, 0.15, 0.4)
	n := len(l.Archs)
	switch r.IntN(3) {
	case 0:
		c.Mode = "handle"
		c.Files = []WFile{{Base: "src", Rel: "h.wsp", Layout: l, Fills: genFills(r, l, 2, 0.9)}}
		k := int(between(r, 2, 6))
		for a := 0; a < k; a++ {
			var qs []C04Query
			for j := 0; j < int(between(r, 1, 4)); j++ {
				q := C04Query{ID: int(between(r, -1, int64(n-1)))}
				q.FromAge = between(r, 0, l.MaxRet())
				q.UntilAge = between(r, 0, q.FromAge)
				if chance(r, 0.3) {
					q.FromAge, q.UntilAge = l.Archs[r.IntN(n)].R(), 0
				}
				qs = append(qs, q)
			}
			c.Queries = append(c.Queries, qs)
		}
	case 1:
		c.Mode = "sum"
		nf := int(between(r, 2, 12))
		for f := 0; f < nf; f++ {
			c.Files = append(c.Files, WFile{Base: "src", Rel: fmt.Sprintf("grp/it0/s%02d.wsp", f), Layout: l, Fills: genFills(r, l, 1, 0.7)})
		}
		cm := Cmd{Kind: "sum", Item: "grp/it0", Src: "*.wsp", Archive: genArchiveSel(r, n)}
		genWindow(r, l, &cm)
		c.Cmds = []Cmd{cm}
	case 2:
		c.Mode = "server"
		for _, rel := range []string{"top.wsp", "grp/it0/a.wsp", "grp/it0/b.wsp", "grp/it1/a.wsp"} {
			c.Files = append(c.Files, WFile{Base: "src", Rel: rel, Layout: l, Fills: genFills(r, l, 1, 0.7)})
			if chance(r, 0.5) {
				c.Files = append(c.Files, WFile{Base: "dst", Rel: rel, Layout: l, Fills: genFills(r, l, 1, 0.5)})
			}
		}
		k := int(between(r, 2, 6))
		for i := 0; i < k; i++ {
			cm := Cmd{Archive: genArchiveSel(r, n), SrcRemote: true}
			switch r.IntN(5) {
			case 0:
				cm.Kind, cm.Src = "view", pick(r, "top.wsp", "grp/it0/a.wsp", "missing.wsp")
			case 1:
				cm.Kind, cm.Src, cm.Sort = "view-raw", pick(r, "top.wsp", "grp/it0/a.wsp"), chance(r, 0.5)
			case 2:
				cm.Kind, cm.Item, cm.Src = "sum", pick(r, "grp/it*", "grp/it0"), pick(r, "*.wsp", "a.wsp")
			case 3:
				cm.Kind, cm.Src = "diff", pick(r, "grp/it*/a.wsp", "top.wsp", "grp/it0/*.wsp")
			case 4:
				cm.Kind, cm.Src = "view", pick(r, "top.wsp", "grp/it1/a.wsp")
			}
			genWindow(r, l, &cm)
			c.Cmds = append(c.Cmds, cm)
		}
		// raw requests, many of them failing in different ways: every response
		// (status and body) must be what the same request gets when alone
		rawChoices := []string{
			"/view?retention=0&from=2000-01-01T00:00:00Z&until=2000-01-01T00:00:00Z&now=2000-01-01T00:00:00Z", // "file" empty
			"/view?file=top.wsp&retention=x&from=a&until=b&now=c",
			"/view?file=top.wsp&retention=99&from=2001-01-01T00:00:00Z&until=2001-01-01T00:00:10Z&now=2001-01-01T00:00:10Z",
			"/view?file=top.wsp&retention=0&from=bad&until=2001-01-01T00:00:10Z&now=2001-01-01T00:00:10Z",
			"/view?file=top.wsp&retention=0&from=2001-01-01T00:00:00Z&until=bad&now=2001-01-01T00:00:10Z",
			"/view-raw?file=top.wsp&retention=99",
			"/view-raw?file=&retention=0",
			"/view-raw?file=grp/it0/a.wsp&retention=-1",
			"/sum?item=&pattern=*.wsp&retention=0",
			"/sum?item=grp.it0&pattern=&retention=0",
			"/sum?item=grp.it0&pattern=*.wsp&retention=zz",
			"/items?pattern=",
			"/items?pattern=grp/*",
			"/files?pattern=[",
			"/files?pattern=grp/it0/*.wsp",
			"/files?pattern=",
		}
		for i := 0; i < int(between(r, 0, 6)); i++ {
			c.Raw = append(c.Raw, rawChoices[r.IntN(len(rawChoices))])
		}
		if chance(r, 0.5) {
			// requests that differ only in the clock value they carry
			base := c.Clock0
			file := pick(r, "top.wsp", "grp/it0/a.wsp")
			ep := pick(r, "view?file="+file, "sum?item=grp.it0&pattern=*.wsp")
			for i := 0; i < int(between(r, 2, 4)); i++ {
				nowi := base + int64(i)*between(r, 1, l.Archs[0].S+2)
				c.Raw = append(c.Raw, fmt.Sprintf("/%s&retention=-1&from=%s&until=%s&now=%s", ep,
					tsFlag(base-l.Archs[0].R()-3), tsFlag(base+60), tsFlag(nowi)))
			}
		}
		if chance(r, 0.4) {
			// several sums over the same item at once
			for i := 0; i < 2; i++ {
				cm := Cmd{Kind: "sum", Item: "grp/it0", Src: "*.wsp", Archive: -1, SrcRemote: chance(r, 0.7)}
				c.Cmds = append(c.Cmds, cm)
			}
		}
	}
	if c.Mode == "handle" && len(c.Layout.Archs) > 1 && chance(r, 0.12) {
		c.DamageArch = 1 + r.IntN(len(c.Layout.Archs))
	}
	if c.Mode == "server" && len(c.Raw) > 0 && chance(r, 0.25) {
		// F7: a client gives up while its request is being served (or waits for a lock)
		c.Cancel = append(c.Cancel, r.IntN(len(c.Raw)))
	}
	return c
}

func validC17(c *C17Case) bool {
	if !c.Layout.Valid() || c.Clock0 < 946684800 || c.Clock0 > math.MaxUint32-3*400*86400 || len(c.Files) > 30 || len(c.Cmds) > 12 || len(c.Queries) > 10 {
		return false
	}
	if c.PreemptP < 0 || c.PreemptP > 1 {
		return false
	}
	for _, f := range c.Files {
		if !f.Layout.Valid() || (f.Base != "src" && f.Base != "dst") || f.Rel == "" || len(f.Fills) > 12 {
			return false
		}
	}
	for _, cm := range c.Cmds {
		switch cm.Kind {
		case "view", "view-raw", "sum", "diff":
		default:
			return false
		}
	}
	for _, qs := range c.Queries {
		if len(qs) > 10 {
			return false
		}
	}
	if len(c.Raw) > 16 {
		return false
	}
	for _, q := range c.Raw {
		if len(q) == 0 || q[0] != '/' || len(q) > 300 {
			return false
		}
	}
	return true
}

type fetchResult struct {
	err  bool
	none bool
	from int64
	step int64
	vals []float64
}

func doFetch(db *wt.Whisper, q C04Query, now int64) fetchResult {
	from, until := now-q.FromAge, now-q.UntilAge
	if from < 0 || until < 0 {
		return fetchResult{err: true}
	}
	ts, err := db.FetchFromArchive(q.ID, wt.Timestamp(from), wt.Timestamp(until), wt.Timestamp(now))
	if err != nil {
		return fetchResult{err: true}
	}
	if ts == nil {
		return fetchResult{none: true}
	}
	r := fetchResult{from: int64(ts.FromTime()), step: int64(ts.Step())}
	for _, v := range ts.Values() {
		r.vals = append(r.vals, float64(v))
	}
	return r
}

func (a fetchResult) equal(b fetchResult) bool {
	if a.err != b.err || a.none != b.none || a.from != b.from || a.step != b.step || len(a.vals) != len(b.vals) {
		return false
	}
	for i := range a.vals {
		if !model.SameValue(a.vals[i], b.vals[i]) {
			return false
		}
	}
	return true
}

func c17Setup(e *Env, c *C17Case) bool {
	if !validC17(c) {
		e.Skip("invalid-case")
		return false
	}
	SetClock(e, c.Clock0)
	os.MkdirAll(filepath.Join(e.Dir, "src"), 0o755)
	os.MkdirAll(filepath.Join(e.Dir, "dst"), 0o755)
	for _, f := range c.Files {
		if err := buildFile(e, f); err != nil {
			e.Skip("world-build-failed")
			return false
		}
	}
	return true
}

func (c17Sim) Run(e *Env, ci interface{}) {
	c := ci.(*C17Case)
	if !c17Setup(e, c) {
		return
	}
	switch c.Mode {
	case "handle":
		c17Handle(e, c)
	case "sum", "server":
		c17Commands(e, c)
	default:
		e.Skip("invalid-case")
	}
}

func c17Handle(e *Env, c *C17Case) {
	if len(c.Files) == 0 {
		e.Skip("invalid-case")
		return
	}
	now := Now()
	if k := c.DamageArch - 1; k >= 0 && k < len(c.Layout.Archs) {
		// F5: one archive's base interval is damaged (misaligned): its fetches
		// fail, which must not reach the fetches of the other archives
		off := int64(16 + 12*len(c.Layout.Archs))
		for i := 0; i < k; i++ {
			off += 12 * c.Layout.Archs[i].N
		}
		if f, ferr := os.OpenFile(c.Files[0].path(e), os.O_RDWR, 0); ferr == nil {
			var b [4]byte
			if _, rerr := f.ReadAt(b[:], off); rerr == nil {
				v := binary.BigEndian.Uint32(b[:])
				if v != 0 && c.Layout.Archs[k].S > 1 {
					binary.BigEndian.PutUint32(b[:], v+1)
					f.WriteAt(b[:], off)
					e.Fault("F5.base-interval-misaligned")
				}
			}
			f.Close()
		}
	}
	// the shared handle is opened the way a reader may: default flags, or
	// read-only (a knob of the run)
	opts := []wt.Option{wt.WithoutFlock()}
	if c.SchedSeed%3 == 0 {
		opts = append(opts, wt.WithOpenFileFlag(os.O_RDONLY))
		e.Probe("shared-handle-opened-read-only")
	}
	db, err := wt.Open(c.Files[0].path(e), opts...)
	if err != nil {
		e.Skip("world-unreadable")
		return
	}
	defer db.Close()
	// the reference: every fetch alone, each on a handle of its own (nothing
	// one fetch leaves on a handle can reach another)
	want := make([][]fetchResult, len(c.Queries))
	for a, qs := range c.Queries {
		for _, q := range qs {
			if q.ID < -1 || q.ID >= len(c.Layout.Archs) {
				e.Skip("invalid-case")
				return
			}
			ref, err := wt.Open(c.Files[0].path(e), wt.WithoutFlock())
			if err != nil {
				e.Skip("world-unreadable")
				return
			}
			want[a] = append(want[a], doFetch(ref, q, now))
			ref.Close()
		}
	}
	s := NewSched(c.SchedSeed, nSites)
	s.PreemptP = c.PreemptP
	if e.SchedRec != nil && e.SchedRec.Replay {
		s.SetReplay(e.SchedRec.Choices, e.SchedRec.Preempts)
	}
	var mu sync.Mutex
	for a, qs := range c.Queries {
		a, qs := a, qs
		s.Go(fmt.Sprintf("A%d", a), func() {
			for j, q := range qs {
				got := doFetch(db, q, now)
				if !got.equal(want[a][j]) {
					mu.Lock()
					e.Violate("C17.shared-handle", "actor %d query %d (archive %d, window (now-%d, now-%d]) on the shared handle returned a result different from the same fetch executed alone (%d vs %d values, from %d vs %d)",
						a, j, q.ID, q.FromAge, q.UntilAge, len(got.vals), len(want[a][j].vals), got.from, want[a][j].from)
					mu.Unlock()
					s.Abort("violation")
					return
				}
			}
		})
	}
	s.Install()
	s.Run()
	Uninstall()
	c17Finish(e, s, c)
	if len(c.Queries) > 1 && len(s.Preempts) > 0 {
		e.Probe("interleaved-fetches-on-shared-handle")
	}
}

func c17Finish(e *Env, s *Sched, c *C17Case) {
	e.OutSched = &SchedRec{Seed: c.SchedSeed, PreemptP: c.PreemptP, Choices: s.Choices, Preempts: s.Preempts}
	e.Stats.Yields += int64(s.Yields)
	e.Stats.Decisions += int64(s.Decisions)
	for i, n := range s.Cover {
		if n > 0 && i < len(e.Cover) {
			e.Cover[i] += n
		}
	}
	if s.Switches > 0 {
		e.Stats.Interleave[s.Signature()] = true
	}
	if len(s.Preempts) > 0 {
		e.Fault("F9.preemption")
		e.Stats.Faults["F9.preemption-points"] += int64(len(s.Preempts))
	}
	if len(s.Panics) > 0 && !e.Failed() {
		e.Violate("C17.panic", "%s", firstLine(s.Panics[0]))
	}
	if s.Deadlock && !e.Failed() {
		e.Violate("C17.equal-sequential", "run concurrently the requests never finish (every goroutine parked or waiting, nothing runnable for a simulated hour), each of them finishes when run alone;%s", s.DeadlockInfo)
	}
}

func c17Commands(e *Env, c *C17Case) {
	if len(c.Cmds) == 0 {
		e.Skip("invalid-case")
		return
	}
	remote := c.Mode == "server"
	// reference: every command alone, no preemption
	var refs []*cmdResult
	rr := newCliRunner(e, c.SchedSeed^0x55, 0, remote)
	for i, cm := range c.Cmds {
		refs = append(refs, rr.run1(cm, fmt.Sprintf("ref%d", i)))
	}
	rawRef := make([]string, len(c.Raw))
	if remote {
		for i, q := range c.Raw {
			i, q := i, q
			rr.s.Go(fmt.Sprintf("R%d", i), func() { rawRef[i] = rawGet(q) })
			rr.s.Install()
			rr.s.Run()
			Uninstall()
		}
	}
	rr.close()
	e.OutSched = nil
	for _, r := range refs {
		if r.aborted || len(r.panics) > 0 {
			e.Skip("reference-run-did-not-complete")
			return
		}
	}
	// concurrent: all commands at once, statement-level preemption
	cr := newCliRunner(e, c.SchedSeed, c.PreemptP, remote)
	tags := make([]string, len(c.Cmds))
	for i := range tags {
		tags[i] = fmt.Sprintf("con%d", i)
	}
	rawGot := make([]string, len(c.Raw))
	cancelled := map[int]bool{}
	if remote {
		for _, i := range c.Cancel {
			if i >= 0 && i < len(c.Raw) {
				cancelled[i] = true
			}
		}
		for i, q := range c.Raw {
			i, q := i, q
			if cancelled[i] {
				// this client gives up at a moment the scheduler chooses: its own
				// answer does not matter, every other request must be served as if
				// it had been alone
				ctx, cancel := context.WithCancel(context.Background())
				cr.s.Go(fmt.Sprintf("R%d", i), func() { rawGot[i] = rawGetCtx(ctx, q) })
				cr.s.Go(fmt.Sprintf("X%d", i), func() { cancel(); e.Fault("F7.client-gives-up") })
				continue
			}
			cr.s.Go(fmt.Sprintf("R%d", i), func() { rawGot[i] = rawGet(q) })
		}
	}
	got := cr.run(c.Cmds, tags)
	var srvPanics []string
	if cr.srv != nil {
		srvPanics = cr.srv.Panics
	}
	s := cr.s
	cr.close()
	c17Finish(e, s, c)
	if e.Failed() {
		return
	}
	if len(srvPanics) > 0 {
		e.Violate("C17.panic", "%s", srvPanics[0])
		return
	}
	for i := range c.Cmds {
		if got[i].aborted {
			return
		}
		if len(got[i].panics) > 0 {
			e.Violate("C17.panic", "command %d (%s) panicked when run concurrently: %s", i, c.Cmds[i].Kind, got[i].panics[0])
			return
		}
		gc, rc := outcomeClass(got[i].err), outcomeClass(refs[i].err)
		// competing failures of the two diff workers are schedule-dependent
		if c.Cmds[i].Kind == "diff" && gc != rc && gc != "success" && rc != "success" {
			e.Skip("both-workers-fail-differently")
			continue
		}
		if gc != rc {
			e.Violate("C17.equal-sequential", "command %d (%s %s%s archive %d): outcome %s (%v) when run concurrently with %d other command(s), %s (%v) when run alone",
				i, c.Cmds[i].Kind, c.Cmds[i].Src, c.Cmds[i].Item, c.Cmds[i].Archive, gc, got[i].err, len(c.Cmds)-1, rc, refs[i].err)
			return
		}
		go1, ro := normaliseOut(got[i].out, e.Dir, true), normaliseOut(refs[i].out, e.Dir, true)
		if go1 != ro {
			e.Violate("C17.equal-sequential", "command %d (%s %s%s archive %d): output differs between the concurrent run (%d commands, preemption %.3f) and the run alone: %q vs %q",
				i, c.Cmds[i].Kind, c.Cmds[i].Src, c.Cmds[i].Item, c.Cmds[i].Archive, len(c.Cmds), c.PreemptP, diffSnippet(go1, ro), diffSnippet(ro, go1))
			return
		}
	}
	for i := range c.Raw {
		if cancelled[i] {
			continue
		}
		if remote && rawGot[i] != rawRef[i] {
			e.Violate("C17.equal-sequential", "raw request %s: response %q when issued concurrently with %d other request(s), %q when issued alone",
				c.Raw[i], trunc(rawGot[i], 160), len(c.Raw)+len(c.Cmds)-1, trunc(rawRef[i], 160))
			return
		}
	}
	if remote && len(c.Raw) > 1 {
		e.Probe("raw-requests-compared")
	}
	if len(s.Preempts) > 0 {
		e.Probe("interleaved-" + c.Mode)
	}
}

// rawGet issues one GET over the simulated wire and returns status and body.
func rawGetCtx(ctx context.Context, pathAndQuery string) string {
	req, err := http.NewRequestWithContext(ctx, "GET", simURL+pathAndQuery, nil)
	if err != nil {
		return "request error: " + err.Error()
	}
	resp, err := http.DefaultClient.Do(req)
	if err != nil {
		return "transport error: " + err.Error()
	}
	defer resp.Body.Close()
	b, _ := io.ReadAll(resp.Body)
	return fmt.Sprintf("%d %s|%s", resp.StatusCode, resp.Header.Get("Content-Type"), b)
}

func rawGet(pathAndQuery string) string {
	resp, err := http.Get(simURL + pathAndQuery)
	if err != nil {
		return "transport error: " + err.Error()
	}
	defer resp.Body.Close()
	b, _ := io.ReadAll(resp.Body)
	return fmt.Sprintf("%d %s|%s", resp.StatusCode, resp.Header.Get("Content-Type"), b)
}

// RunRace executes the case free-running (no scheduler, no yield hooks, real
// parallel goroutines) so that the race detector can observe it.
func (c17Sim) RunRace(e *Env, ci interface{}) {
	c := ci.(*C17Case)
	if !c17Setup(e, c) {
		return
	}
	switch c.Mode {
	case "handle":
		now := Now()
		opts := []wt.Option{wt.WithoutFlock()}
		if c.SchedSeed%3 == 0 {
			opts = append(opts, wt.WithOpenFileFlag(os.O_RDONLY))
		}
		db, err := wt.Open(c.Files[0].path(e), opts...)
		if err != nil {
			return
		}
		defer db.Close()
		var wg sync.WaitGroup
		for _, qs := range c.Queries {
			qs := qs
			wg.Add(1)
			go func() {
				defer wg.Done()
				for rep := 0; rep < 3; rep++ {
					for _, q := range qs {
						if q.ID >= -1 && q.ID < len(c.Layout.Archs) {
							doFetch(db, q, now)
						}
					}
				}
			}()
		}
		wg.Wait()
	case "sum", "server":
		remote := c.Mode == "server"
		var srv *simServer
		dummy := NewSched(1, 0)
		if remote {
			srv = startSimServerFree(e, dummy, filepath.Join(e.Dir, "src"))
			defer srv.stop()
		}
		now := Now()
		var wg sync.WaitGroup
		for i, cm := range c.Cmds {
			command, _, err := buildCommand(e, cm, now, fmt.Sprintf("race%d", i))
			if err != nil {
				continue
			}
			wg.Add(1)
			go func() {
				defer wg.Done()
				defer func() { recover() }()
				command.Execute()
			}()
		}
		if remote {
			for _, q := range c.Raw {
				q := q
				wg.Add(1)
				go func() {
					defer wg.Done()
					rawGet(q)
				}()
			}
		}
		wg.Wait()
	}
	e.Probe("race-run/" + c.Mode)
}
