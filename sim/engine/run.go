package engine

import (
	"encoding/json"
	"flag"
	"fmt"
	wcmd "github.com/hnakamur/whispertool/cmd"
	"math/rand/v2"
	"os"
	"path/filepath"
	"runtime/debug"
	"sort"
	"strings"
	"syscall"
	"testing"
	"testing/cryptotest"
	"testing/synctest"
	"time"

	wt "github.com/hnakamur/whispertool"
)

func timeNow() time.Time { return time.Now() }

// Sim is one kind of simulation.
type Sim interface {
	Name() string
	Gen(prop, tier string, r *rand.Rand) interface{}
	Decode(raw json.RawMessage) (interface{}, error)
	Run(e *Env, c interface{})
}

var sims = map[string]Sim{}

func register(s Sim) { sims[s.Name()] = s }

type simWeight struct {
	sim string
	w   int
}

// simsFor lists the simulations deciding each property.
var simsFor = map[string][]simWeight{}

func init() {
	register(libSim{})
	for _, p := range []string{"C01", "C02", "C03"} {
		simsFor[p] = []simWeight{{"lib", 1}}
	}
	simsFor["C06"] = []simWeight{{"lib", 3}, {"cli", 1}}
	register(crashSim{})
	simsFor["C05"] = []simWeight{{"lib", 12}, {"clicrash", 1}, {"c13", 2}}
	register(cliSim{})
	for _, p := range []string{"C08", "C09", "C10", "C11", "C18", "C20"} {
		simsFor[p] = []simWeight{{"cli", 1}}
	}
	register(gridSim{})
	simsFor["C16"] = []simWeight{{"grid", 1}}
	register(c12Sim{})
	simsFor["C12"] = []simWeight{{"c12", 1}}
	register(c15Sim{})
	simsFor["C15"] = []simWeight{{"c15", 1}}
	register(c17Sim{})
	simsFor["C17"] = []simWeight{{"c17", 1}}
	register(c13Sim{})
	simsFor["C13"] = []simWeight{{"c13", 1}}
	register(c04Sim{})
	simsFor["C04"] = []simWeight{{"c04", 1}}
}

var (
	flagProp    = flag.String("wsim.prop", "", "property id")
	flagTier    = flag.String("wsim.tier", "quick", "tier")
	flagSeed    = flag.Uint64("wsim.seed", 1, "VERIF_SEED")
	flagFrom    = flag.Int("wsim.from", 0, "first run index")
	flagN       = flag.Int("wsim.n", 0, "number of runs")
	flagStride  = flag.Int("wsim.stride", 1, "index stride (number of workers)")
	flagOut     = flag.String("wsim.out", "", "output directory for stats and failing traces")
	flagTrace   = flag.String("wsim.trace", "", "replay this trace file")
	flagMin     = flag.String("wsim.minimise", "", "minimise this failing trace file (in place: writes <file>.min)")
	flagBudget  = flag.Float64("wsim.budget", 0, "wall-clock budget in seconds (0 = none)")
	flagLog     = flag.Bool("wsim.log", false, "write the event log of every run (determinism self-test)")
	flagSites   = flag.String("wsim.sites", "", "sites.json of the instrumented tree")
	flagWorker  = flag.Int("wsim.worker", 0, "worker number")
	flagMaxFail = flag.Int("wsim.maxfail", 3, "stop after this many failing runs")
	flagSimOnly = flag.String("wsim.sim", "", "restrict to one simulation kind")
	flagChild   = flag.String("wsim.childhold", "", "child mode of the cross-process probe: hold a handle on this file")
	flagProbe   = flag.Bool("wsim.procprobe", false, "run the cross-process lock probe of C13")
	flagRace    = flag.Bool("wsim.race", false, "free-running workloads for the race detector (no scheduler, no hooks)")
)

var nSites int

// genIndex is the index of the run being generated (enumerating generators use
// it instead of the PRNG).
var genIndex int

func loadSites() {
	if *flagSites == "" {
		return
	}
	b, err := os.ReadFile(*flagSites)
	if err != nil {
		return
	}
	var ss []struct {
		ID   int    `json:"id"`
		Func string `json:"func"`
		Text string `json:"text"`
	}
	if json.Unmarshal(b, &ss) == nil {
		for _, s := range ss {
			if s.ID > nSites {
				nSites = s.ID
			}
			siteFunc[s.ID] = s.Func
			siteText[s.ID] = s.Text
		}
	}
}

func chooseSim(prop string, r *rand.Rand) Sim {
	ws := simsFor[prop]
	if *flagSimOnly != "" {
		return sims[*flagSimOnly]
	}
	tot := 0
	for _, w := range ws {
		tot += w.w
	}
	x := r.IntN(tot)
	for _, w := range ws {
		if x < w.w {
			return sims[w.sim]
		}
		x -= w.w
	}
	return sims[ws[0].sim]
}

// runOne executes one case in a fresh bubble and returns the environment.
func runOne(t *testing.T, prop, tier string, seed uint64, sim Sim, c interface{}, st *Stats, sched *SchedRec, logging bool) *Env {
	dir, err := os.MkdirTemp("/dev/shm", fmt.Sprintf("wsim-%d-", os.Getpid()))
	if err != nil {
		fmt.Fprintln(os.Stderr, "cannot create world directory:", err)
		os.Exit(2)
	}
	defer os.RemoveAll(dir)
	e := &Env{T: t, Prop: prop, Tier: tier, Seed: seed, Dir: dir, Stats: st, SchedRec: sched, Logging: logging}
	cover := make([]uint32, nSites+1)
	e.Cover = cover
	func() {
		defer func() {
			if r := recover(); r != nil {
				if deadlockSeen && strings.Contains(fmt.Sprint(r), "blocked goroutines remain") {
					// the run's scheduler reported a deadlock and judged it; the
					// goroutines it left blocked for good are what the bubble
					// complains about here
					return
				}
				// a panic of the harness itself or the bubble's deadlock report
				e.Viol = nil
				fmt.Fprintf(os.Stderr, "HARNESS-PANIC prop=%s seed=%d: %v\n%s\n", prop, seed, r, debug.Stack())
				os.Exit(2)
			}
		}()
		deadlockSeen = false
		synctest.Test(t, func(t *testing.T) {
			e.T = t
			// crypto/rand (the seed of generate's random points) is a seeded stream
			cryptotest.SetGlobalRandom(t, seed)
			wt.VerifYield = func(site int) {
				if site < len(cover) {
					cover[site]++
				}
			}
			wt.VerifFlock = nil
			wt.VerifSpawn = nil
			wt.VerifHeld = nil
			wt.VerifFsync = nil
			wt.Now = time.Now
			// runtime.NumCPU() as the tree under test sees it: a knob of the run
			ncpu := []int{1, 2, 2, 3, 4, 8, 16, 64}[RunSeed(seed, "ncpu", 0)%8]
			wt.VerifNumCPU = func() int { return ncpu }
			// package-level channels of the tree under test belong to this bubble
			wt.VerifReinit()
			wcmd.VerifReinit()
			defer Uninstall()
			sim.Run(e, c)
		})
	}()
	for _, f := range e.After {
		f()
	}
	e.After = nil
	for s, n := range cover {
		if n > 0 {
			st.Sites[s] += int64(n)
		}
	}
	st.Runs++
	if e.nontriv {
		b, _ := json.Marshal(c)
		st.Nontrivial[hashBytes(b)] = true
	}
	return e
}

func traceOf(prop string, sim Sim, seed uint64, idx int, c interface{}, e *Env) *Trace {
	b, _ := json.Marshal(c)
	tr := &Trace{V: 1, Property: prop, Sim: sim.Name(), Seed: seed, Index: idx, Case: b, Violation: e.Viol}
	if e.OutSched != nil {
		tr.Sched = e.OutSched
	}
	return tr
}

func writeJSON(path string, v interface{}) {
	b, _ := json.MarshalIndent(v, "", " ")
	if err := os.WriteFile(path, b, 0o644); err != nil {
		fmt.Fprintln(os.Stderr, "write:", err)
		os.Exit(2)
	}
}

func finalizeStats(st *Stats, t0 time.Time, sitesHit bool) {
	st.StatesN = len(st.States)
	st.InterleaveN = len(st.Interleave)
	st.NontrivialN = len(st.Nontrivial)
	for h := range st.States {
		st.StateHashes = append(st.StateHashes, h)
		if len(st.StateHashes) >= 200000 {
			break
		}
	}
	for h := range st.Interleave {
		st.InterHashes = append(st.InterHashes, h)
	}
	for h := range st.Nontrivial {
		st.NontrHashes = append(st.NontrHashes, h)
	}
	sort.Slice(st.StateHashes, func(i, j int) bool { return st.StateHashes[i] < st.StateHashes[j] })
	sort.Slice(st.InterHashes, func(i, j int) bool { return st.InterHashes[i] < st.InterHashes[j] })
	sort.Slice(st.NontrHashes, func(i, j int) bool { return st.NontrHashes[i] < st.NontrHashes[j] })
	st.SiteHits = map[string]int64{}
	for s, n := range st.Sites {
		st.SiteHits[fmt.Sprint(s)] = n
	}
	st.WallS = time.Since(t0).Seconds()
}

// TestWsim is the entry point of a worker process.
func TestWsim(t *testing.T) {
	if *flagChild != "" {
		childHoldMain(*flagChild)
		return
	}
	if *flagProbe {
		if msg := procProbe(t); msg != "" {
			fmt.Printf("PROCPROBE-VIOLATION %s\n", msg)
		} else {
			fmt.Println("PROCPROBE-OK")
		}
		return
	}
	loadSites()
	// address-space cap: an allocation out of proportion kills this worker
	// with "fatal error: out of memory" instead of taking the machine down
	var lim syscall.Rlimit
	lim.Cur, lim.Max = 6<<30, 6<<30
	syscall.Setrlimit(syscall.RLIMIT_AS, &lim)
	if *flagTrace != "" {
		replayMain(t)
		return
	}
	if *flagMin != "" {
		minimiseMain(t)
		return
	}
	if *flagRace {
		raceMain(t)
		return
	}
	prop := *flagProp
	if prop == "" {
		t.Skip("no -wsim.prop")
	}
	if _, ok := simsFor[prop]; !ok {
		fmt.Fprintln(os.Stderr, "unknown property", prop)
		os.Exit(2)
	}
	t0 := time.Now()
	st := newStats()
	fails := 0
	var logf *os.File
	if *flagLog && *flagOut != "" {
		logf, _ = os.Create(filepath.Join(*flagOut, fmt.Sprintf("log-%d.txt", *flagWorker)))
		defer logf.Close()
	}
	for k := 0; k < *flagN; k++ {
		idx := *flagFrom + k**flagStride
		if *flagBudget > 0 && time.Since(t0).Seconds() > *flagBudget {
			break
		}
		if st.ResumeAt > 0 {
			break
		}
		seed := RunSeed(*flagSeed, prop, idx)
		r := newRng(seed)
		sim := chooseSim(prop, r)
		genIndex = idx
		c := sim.Gen(prop, *flagTier, r)
		if *flagOut != "" {
			// journal: the case about to run, so that a worker killed by the
			// runtime (out of memory, fatal error) is attributed to an exact case
			jb, _ := json.Marshal(traceOf(prop, sim, seed, idx, c, &Env{}))
			os.WriteFile(filepath.Join(*flagOut, fmt.Sprintf("journal-%d.json", *flagWorker)), jb, 0o644)
		}
		e := runOne(t, prop, *flagTier, seed, sim, c, st, nil, *flagLog)
		if logf != nil {
			// the event log of the determinism self-test: outcome, schedule and
			// the cumulative counters after every run (never a clock, never a draw)
			sched := ""
			if e.OutSched != nil {
				sb, _ := json.Marshal(e.OutSched)
				sched = fmt.Sprintf("%x", hashBytes(sb))
			}
			pb, _ := json.Marshal(map[string]interface{}{"probes": st.Probes, "faults": st.Faults, "skipped": st.Skipped, "ops": st.Ops, "yields": st.Yields, "decisions": st.Decisions, "states": len(st.States), "inter": len(st.Interleave)})
			viol := ""
			if e.Viol != nil {
				viol = e.Viol.Oracle + ": " + e.Viol.Message
			}
			fmt.Fprintf(logf, "run %d seed %d sim %s sched %s viol %q\n  %s\n", idx, seed, sim.Name(), sched, viol, pb)
			for _, l := range e.Log {
				fmt.Fprintln(logf, l)
			}
		}
		if len(st.Samples) < 3 && e.nontriv {
			b, _ := json.Marshal(map[string]interface{}{"sim": sim.Name(), "index": idx, "case": c})
			if len(b) < 6000 {
				st.Samples = append(st.Samples, b)
			}
		}
		if deadlockSeen && k+1 < *flagN {
			// goroutines blocked for good may outlive this run's bubble and run
			// their deferred calls later: no further run in this process
			st.ResumeAt = k + 1
		}
		if e.Viol != nil {
			if name := knownFinding(prop, sim.Name(), c, e.Viol); name != "" {
				st.Known[name]++
				if _, ok := st.KnownSample[name]; !ok {
					st.KnownSample[name] = e.Viol.Message
				}
				continue
			}
			fails++
			if *flagOut != "" {
				writeJSON(filepath.Join(*flagOut, fmt.Sprintf("fail-%s-%d.json", prop, idx)), traceOf(prop, sim, seed, idx, c, e))
			}
			fmt.Printf("FAIL prop=%s index=%d seed=%d oracle=%s: %s\n", prop, idx, seed, e.Viol.Oracle, trunc(oneLine(e.Viol.Message), 400))
			if fails >= *flagMaxFail {
				break
			}
		}
	}
	finalizeStats(st, t0, true)
	if *flagOut != "" {
		writeJSON(filepath.Join(*flagOut, fmt.Sprintf("stats-%d.json", *flagWorker)), st)
	}
}

func loadTrace(path string) (*Trace, Sim, interface{}) {
	b, err := os.ReadFile(path)
	if err != nil {
		fmt.Fprintln(os.Stderr, "cannot read trace:", err)
		os.Exit(2)
	}
	var tr Trace
	if err := json.Unmarshal(b, &tr); err != nil {
		fmt.Fprintln(os.Stderr, "cannot parse trace:", err)
		os.Exit(2)
	}
	sim := sims[tr.Sim]
	if sim == nil {
		fmt.Fprintln(os.Stderr, "unknown sim in trace:", tr.Sim)
		os.Exit(2)
	}
	c, err := sim.Decode(tr.Case)
	if err != nil {
		fmt.Fprintln(os.Stderr, "cannot decode case:", err)
		os.Exit(2)
	}
	return &tr, sim, c
}

// replayMain re-executes a trace file; prints REPLAY-VIOLATION or REPLAY-CLEAN.
func replayMain(t *testing.T) {
	tr, sim, c := loadTrace(*flagTrace)
	st := newStats()
	e := runOne(t, tr.Property, "quick", tr.Seed, sim, c, st, tr.Sched, false)
	if e.Viol != nil {
		fmt.Printf("REPLAY-VIOLATION property=%s oracle=%s: %s\n", tr.Property, e.Viol.Oracle, oneLine(e.Viol.Message))
		if tr.Violation != nil && tr.Violation.Oracle != e.Viol.Oracle {
			fmt.Printf("REPLAY-NOTE recorded oracle was %s\n", tr.Violation.Oracle)
		}
		if name := knownFinding(tr.Property, sim.Name(), c, e.Viol); name != "" {
			fmt.Printf("REPLAY-KNOWN %s\n", name)
		}
	} else {
		fmt.Printf("REPLAY-CLEAN property=%s\n", tr.Property)
	}
}

// raceRunner is implemented by simulations that have a free-running variant.
type raceRunner interface {
	RunRace(e *Env, c interface{})
}

// raceMain runs the free-running workloads; the race detector (the binary is
// built with -race) reports to stderr and makes the process exit non-zero.
func raceMain(t *testing.T) {
	prop := *flagProp
	n := *flagN
	if n == 0 {
		n = 200
		if *flagTier == "thorough" {
			n = 20000
		}
	}
	t0 := time.Now()
	st := newStats()
	for k := *flagFrom; k < *flagFrom+n; k++ {
		if *flagBudget > 0 && time.Since(t0).Seconds() > *flagBudget {
			break
		}
		seed := RunSeed(*flagSeed, prop+"/race", k)
		r := newRng(seed)
		sim := chooseSim(prop, r)
		rr, ok := sim.(raceRunner)
		if !ok {
			continue
		}
		c := sim.Gen(prop, *flagTier, r)
		dir, err := os.MkdirTemp("/dev/shm", fmt.Sprintf("wsim-%d-", os.Getpid()))
		if err != nil {
			os.Exit(2)
		}
		e := &Env{T: t, Prop: prop, Tier: *flagTier, Seed: seed, Dir: dir, Stats: st}
		synctest.Test(t, func(t *testing.T) {
			Uninstall()
			wt.Now = time.Now
			wt.VerifReinit()
			wcmd.VerifReinit()
			rr.RunRace(e, c)
		})
		os.RemoveAll(dir)
		st.Runs++
	}
	finalizeStats(st, t0, false)
	if *flagOut != "" {
		writeJSON(filepath.Join(*flagOut, fmt.Sprintf("stats-race-%d.json", *flagFrom)), st)
	}
	fmt.Printf("RACE-RUNS %d\n", st.Runs)
}
