package engine

import "testing"

func TestWsimMain(t *testing.T) { TestWsim(t) }
