package engine

// getg returns the address of the running goroutine's g structure. It is used
// only as an identity (map key) for goroutines registered with the scheduler;
// a g is never reused while its goroutine is registered.
func getg() uintptr
