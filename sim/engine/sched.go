package engine

import (
	"fmt"
	"math/rand/v2"
	"os"
	"runtime/debug"
	"sort"
	"sync"
	"syscall"
	"testing/synctest"
	"time"

	"github.com/hnakamur/whispertool"
)

// Sched is the seeded scheduler of one run (one synctest bubble). Goroutines
// registered with it ("actors", their errgroup children and HTTP handler
// goroutines) run one at a time: a goroutine reaching a yield point either
// continues (it is the one most recently released and no preemption is drawn)
// or parks until the scheduler releases it. Unregistered goroutines (net/http
// internals) run freely; synctest.Wait makes the set of parked goroutines a
// function of the trace alone.
type Sched struct {
	mu sync.Mutex

	gs    map[uintptr]*G
	all   []*G
	cur   *G
	epoch uint64
	kick  chan struct{}

	rng      *rand.Rand
	PreemptP float64
	// Replay: when set, choices and preemptions are taken from the recorded
	// schedule instead of the rng.
	replaying bool
	replay    []int
	replayAt  int
	replayPre map[string]bool
	Choices   []int    // recorded choices (scheduling decisions with >1 candidate)
	Preempts  []string // recorded preemptions, "<goroutine>@<its yield count>"

	pendingTick time.Duration
	Ticks       uint64

	Events       uint64 // global event counter
	Yields       uint64
	Decisions    uint64
	Switches     uint64
	MaxYields    uint64 // budget per Run call
	runYields    uint64
	aborting     bool
	AbortWhy     string
	Deadlock     bool
	DeadlockInfo string

	Cover []uint32 // per-site hit counters

	// fault at a yield: called with the scheduler lock NOT held
	Fault func(g *G, site int) FaultAction
	// FlockFault, when set, may make a blocking lock request of goroutine g fail
	// with the returned error (EINTR, ENOLCK) instead of being performed
	FlockFault func(g *G, fd int) error

	// lock hook observations
	LockWaits  uint64
	LockTrace  func(ev string, g *G, fd int)
	Panics     []string
	sigHash    uint64
	liveActors int
}

// deadlockSeen: a scheduler of the current run found every goroutine parked,
// waiting or blocked for a simulated hour. Goroutines blocked for good (on a
// channel of the tree under test) then outlive the run's bubble.
var deadlockSeen bool

// FaultAction is what a fault callback asks the yielding goroutine to do.
type FaultAction int

const (
	FaultNone FaultAction = iota
	FaultCrash
	FaultPark // park here (forced preemption)
)

// G is a goroutine registered with the scheduler.
type G struct {
	Name     string
	wake     chan struct{}
	state    int // 0 running, 1 parked, 2 done
	lockWait bool
	waitFd   int
	waitHow  int
	granted  bool
	children int
	held     int // sync mutexes held: never parked while > 0
	yields   uint64
	site     int
	actor    bool
}

const (
	gRunning = 0
	gParked  = 1
	gDone    = 2
)

type abortPanic struct{ why string }

// IsAbort reports whether a recovered value is the scheduler's abort sentinel.
func IsAbort(r interface{}) bool { _, ok := r.(abortPanic); return ok }

// NewSched creates a scheduler drawing from seed.
func NewSched(seed uint64, nsites int) *Sched {
	return &Sched{
		gs:        map[uintptr]*G{},
		kick:      make(chan struct{}, 1),
		rng:       rand.New(rand.NewPCG(seed, 0x9e3779b97f4a7c15)),
		Cover:     make([]uint32, nsites+1),
		MaxYields: 2_000_000,
	}
}

// SetReplay makes the scheduler follow recorded choices; when they run out the
// default is "lowest identity, no preemption".
func (s *Sched) SetReplay(ch []int, pre []string) {
	s.replaying = true
	s.replay = append([]int{}, ch...)
	s.replayPre = map[string]bool{}
	for _, p := range pre {
		s.replayPre[p] = true
	}
}

// Yields returns the number of yield points g has passed.
func (g *G) Yields() uint64 { return g.yields }

// Tick asks the scheduler to advance the simulated clock by d before its next
// decision (clock-tick fault). Called from a Fault callback together with
// FaultPark.
func (s *Sched) Tick(d time.Duration) {
	s.mu.Lock()
	s.pendingTick += d
	s.mu.Unlock()
}

// Install sets the hooks of the instrumented packages. Must be called before
// any actor starts; Uninstall clears them.
func (s *Sched) Install() {
	whispertool.VerifYield = s.Yield
	whispertool.VerifFlock = s.Flock
	whispertool.VerifSpawn = s.Spawn
	whispertool.VerifHeld = s.Held
}

// Held is the hook called after a mutex was acquired (+1) and before it is
// released (-1) by instrumented code.
func (s *Sched) Held(delta int) {
	id := getg()
	s.mu.Lock()
	if g := s.gs[id]; g != nil {
		g.held += delta
	}
	s.mu.Unlock()
}

// Uninstall removes the hooks.
func Uninstall() {
	whispertool.VerifYield = nil
	whispertool.VerifFlock = nil
	whispertool.VerifSpawn = nil
	whispertool.VerifHeld = nil
}

func (s *Sched) kickSched() {
	select {
	case s.kick <- struct{}{}:
	default:
	}
}

// Go starts an actor goroutine under scheduler control. fn's panics are
// recovered; the abort sentinel is swallowed, other panics are recorded.
func (s *Sched) Go(name string, fn func()) *G {
	g := &G{Name: name, wake: make(chan struct{}, 1), actor: true}
	s.mu.Lock()
	s.all = append(s.all, g)
	s.liveActors++
	s.mu.Unlock()
	go func() {
		s.register(g)
		defer s.finish(g)
		defer func() {
			if r := recover(); r != nil && !IsAbort(r) {
				s.notePanic(g, r)
			}
		}()
		s.parkFirst(g)
		fn()
	}()
	return g
}

func (s *Sched) notePanic(g *G, r interface{}) {
	st := string(debug.Stack())
	s.mu.Lock()
	s.Panics = append(s.Panics, fmt.Sprintf("%s: panic: %v\n%s", g.Name, r, trimStack(st)))
	s.mu.Unlock()
}

func trimStack(st string) string {
	if len(st) > 1800 {
		st = st[:1800]
	}
	return st
}

func (s *Sched) register(g *G) {
	id := getg()
	s.mu.Lock()
	s.gs[id] = g
	s.mu.Unlock()
}

func (s *Sched) finish(g *G) {
	id := getg()
	s.mu.Lock()
	delete(s.gs, id)
	g.state = gDone
	if g.actor {
		s.liveActors--
	}
	if s.cur == g {
		s.cur = nil
	}
	s.Events++
	s.mu.Unlock()
	s.kickSched()
}

// Me returns the registered goroutine of the caller, or nil.
func (s *Sched) Me() *G {
	id := getg()
	s.mu.Lock()
	g := s.gs[id]
	s.mu.Unlock()
	return g
}

// parkFirst parks a freshly started goroutine so that the scheduler decides
// who starts.
func (s *Sched) parkFirst(g *G) {
	s.mu.Lock()
	if s.aborting {
		s.mu.Unlock()
		panic(abortPanic{s.AbortWhy})
	}
	g.state = gParked
	s.mu.Unlock()
	s.kickSched()
	<-g.wake
	s.checkAbort()
}

func (s *Sched) checkAbort() {
	s.mu.Lock()
	ab := s.aborting
	why := s.AbortWhy
	s.mu.Unlock()
	if ab {
		panic(abortPanic{why})
	}
}

// Abort makes every registered goroutine unwind at its next yield.
func (s *Sched) Abort(why string) {
	s.mu.Lock()
	if !s.aborting {
		s.aborting = true
		s.AbortWhy = why
	}
	var wake []*G
	for _, g := range s.all {
		if g.state == gParked {
			g.state = gRunning
			wake = append(wake, g)
		}
	}
	s.mu.Unlock()
	for _, g := range wake {
		g.wake <- struct{}{}
	}
	s.kickSched()
}

// Aborting reports whether the run is being aborted.
func (s *Sched) Aborting() bool {
	s.mu.Lock()
	defer s.mu.Unlock()
	return s.aborting
}

// Yield is the hook called before every statement of the instrumented code.
func (s *Sched) Yield(site int) {
	id := getg()
	s.mu.Lock()
	g := s.gs[id]
	if g == nil {
		s.mu.Unlock()
		return
	}
	if s.aborting {
		s.mu.Unlock()
		panic(abortPanic{s.AbortWhy})
	}
	s.Yields++
	g.yields++
	g.site = site
	if site < len(s.Cover) {
		s.Cover[site]++
	}
	s.runYields++
	if s.runYields > s.MaxYields {
		s.aborting = true
		s.AbortWhy = "yield budget exhausted"
		s.mu.Unlock()
		s.Abort("yield budget exhausted")
		panic(abortPanic{"yield budget exhausted"})
	}
	fault := s.Fault
	s.mu.Unlock()

	forced := false
	if fault != nil {
		switch fault(g, site) {
		case FaultCrash:
			s.Abort("crash")
			panic(abortPanic{"crash"})
		case FaultPark:
			forced = true
		}
	}

	s.mu.Lock()
	if g.held > 0 {
		// inside a critical section: go on without parking
		s.mu.Unlock()
		return
	}
	if s.cur == g && g.state == gRunning && !forced {
		preempt := false
		if s.replaying {
			preempt = s.replayPre[fmt.Sprintf("%s@%d", g.Name, g.yields)]
		} else if s.PreemptP > 0 {
			preempt = s.rng.Float64() < s.PreemptP
		}
		if !preempt {
			s.mu.Unlock()
			return
		}
		s.Preempts = append(s.Preempts, fmt.Sprintf("%s@%d", g.Name, g.yields))
	}
	g.state = gParked
	g.lockWait = false
	if s.cur == g {
		s.cur = nil
	}
	s.mu.Unlock()
	s.kickSched()
	<-g.wake
	s.checkAbort()
}

// Flock is the hook replacing syscall.Flock: the real lock is requested
// non-blockingly; on contention the goroutine parks as a lock waiter.
func (s *Sched) Flock(fd int, how int) error {
	id := getg()
	s.mu.Lock()
	g := s.gs[id]
	s.mu.Unlock()
	if g == nil || how&syscall.LOCK_NB != 0 || how&(syscall.LOCK_EX|syscall.LOCK_SH) == 0 {
		return syscall.Flock(fd, how)
	}
	if ff := s.FlockFault; ff != nil {
		// a failing system call: the lock request itself returns an error
		if err := ff(g, fd); err != nil {
			return err
		}
	}
	for {
		err := syscall.Flock(fd, how|syscall.LOCK_NB)
		if err != syscall.EWOULDBLOCK {
			if tr := s.LockTrace; tr != nil {
				tr("acquired", g, fd)
			}
			s.mu.Lock()
			s.Events++
			g.granted = false
			s.mu.Unlock()
			return err
		}
		if tr := s.LockTrace; tr != nil {
			tr("wait", g, fd)
		}
		s.mu.Lock()
		if s.aborting {
			s.mu.Unlock()
			panic(abortPanic{s.AbortWhy})
		}
		s.LockWaits++
		g.state = gParked
		g.lockWait = true
		g.waitFd = fd
		g.waitHow = how
		g.granted = false
		if s.cur == g {
			s.cur = nil
		}
		s.mu.Unlock()
		s.kickSched()
		<-g.wake
		s.checkAbort()
	}
}

// Spawn wraps the function handed to errgroup.Go: the child gets an identity
// derived from its parent and starts parked. Panics in the child are recorded
// and converted into an error so that the process survives.
func (s *Sched) Spawn(f func() error) func() error {
	id := getg()
	s.mu.Lock()
	parent := s.gs[id]
	var g *G
	if parent != nil {
		parent.children++
		g = &G{Name: fmt.Sprintf("%s.%d", parent.Name, parent.children), wake: make(chan struct{}, 1)}
		s.all = append(s.all, g)
	}
	s.mu.Unlock()
	if g == nil {
		return func() (err error) {
			defer func() {
				if r := recover(); r != nil {
					if IsAbort(r) {
						err = fmt.Errorf("aborted")
						return
					}
					s.notePanic(&G{Name: "worker"}, r)
					err = fmt.Errorf("panic in worker: %v", r)
				}
			}()
			return f()
		}
	}
	return func() (err error) {
		s.register(g)
		defer s.finish(g)
		defer func() {
			if r := recover(); r != nil {
				if IsAbort(r) {
					err = fmt.Errorf("aborted")
					return
				}
				s.notePanic(g, r)
				err = fmt.Errorf("panic in worker: %v", r)
			}
		}()
		s.parkFirst(g)
		return f()
	}
}

// Adopt registers the calling goroutine (an HTTP handler goroutine) under the
// given name, parks it, and returns a function that unregisters it.
func (s *Sched) Adopt(name string) func() {
	g := &G{Name: name, wake: make(chan struct{}, 1)}
	s.mu.Lock()
	s.all = append(s.all, g)
	s.mu.Unlock()
	s.register(g)
	func() {
		defer func() {
			if r := recover(); r != nil {
				s.finish(g)
				panic(r)
			}
		}()
		s.parkFirst(g)
	}()
	return func() { s.finish(g) }
}

// Run is the scheduler loop; it must be called on the bubble's root goroutine
// and returns when every actor has finished (or the run was aborted and
// everybody unwound).
func (s *Sched) Run() {
	s.mu.Lock()
	s.runYields = 0
	s.mu.Unlock()
	for {
		synctest.Wait()
		s.mu.Lock()
		if s.liveActors == 0 {
			// let adopted/child goroutines drain
			pending := false
			for _, g := range s.all {
				if g.state != gDone {
					pending = true
				}
			}
			if !pending {
				s.mu.Unlock()
				return
			}
		}
		if s.aborting {
			var wake []*G
			for _, g := range s.all {
				if g.state == gParked {
					g.state = gRunning
					wake = append(wake, g)
				}
			}
			s.mu.Unlock()
			for _, g := range wake {
				g.wake <- struct{}{}
			}
			if len(wake) == 0 {
				if !s.waitKick() {
					return
				}
			}
			continue
		}
		if s.pendingTick > 0 {
			d := s.pendingTick
			s.pendingTick = 0
			s.Ticks++
			s.mu.Unlock()
			time.Sleep(d)
			continue
		}
		// lock waiters: the lock is requested on their behalf (what the
		// kernel does for a blocked flock); a waiter becomes eligible once
		// it has been granted the lock. The order of the attempts rotates
		// with the decision counter, a function of the trace alone.
		var waiters []*G
		for _, g := range s.all {
			if g.state == gParked && g.lockWait && !g.granted {
				waiters = append(waiters, g)
			}
		}
		if len(waiters) > 0 {
			sort.Slice(waiters, func(i, j int) bool { return waiters[i].Name < waiters[j].Name })
			off := int(s.Decisions % uint64(len(waiters)))
			for k := range waiters {
				g := waiters[(k+off)%len(waiters)]
				if err := syscall.Flock(g.waitFd, g.waitHow|syscall.LOCK_NB); err != syscall.EWOULDBLOCK {
					g.granted = true
				}
			}
		}
		var el []*G
		for _, g := range s.all {
			if g.state != gParked {
				continue
			}
			if g.lockWait && !g.granted {
				continue
			}
			el = append(el, g)
		}
		if len(el) == 0 {
			s.mu.Unlock()
			if !s.waitKick() {
				s.mu.Lock()
				s.Deadlock = true
				deadlockSeen = true
				desc := ""
				for _, g := range s.all {
					if g.state != gDone {
						desc += fmt.Sprintf(" [%s state=%d lockWait=%v granted=%v site=%d]", g.Name, g.state, g.lockWait, g.granted, g.site)
					}
				}
				s.DeadlockInfo = desc
				s.mu.Unlock()
				s.Abort("deadlock: nothing runnable for one simulated hour")
			}
			continue
		}
		sort.Slice(el, func(i, j int) bool { return el[i].Name < el[j].Name })
		idx := 0
		if len(el) > 1 {
			if s.replaying {
				if s.replayAt < len(s.replay) {
					idx = s.replay[s.replayAt] % len(el)
					s.replayAt++
				}
			} else {
				idx = s.rng.IntN(len(el))
			}
			s.Choices = append(s.Choices, idx)
		}
		g := el[idx]
		if s.cur != g {
			s.Switches++
			s.sigHash = s.sigHash*1099511628211 ^ hashStr(g.Name)
		}
		s.cur = g
		g.state = gRunning
		g.lockWait = false
		s.epoch++
		s.Decisions++
		s.Events++
		s.mu.Unlock()
		g.wake <- struct{}{}
	}
}

// waitKick blocks durably until some goroutine parks or finishes; the bubble
// may advance its clock meanwhile. It returns false after one simulated hour
// without any such event.
func (s *Sched) waitKick() bool {
	t := time.NewTimer(time.Hour)
	defer t.Stop()
	select {
	case <-s.kick:
		return true
	case <-t.C:
		return false
	}
}

// Event returns the next global event number.
func (s *Sched) Event() uint64 {
	s.mu.Lock()
	defer s.mu.Unlock()
	s.Events++
	return s.Events
}

// Signature returns a hash of the context-switch sequence.
func (s *Sched) Signature() uint64 {
	s.mu.Lock()
	defer s.mu.Unlock()
	return s.sigHash
}

func hashStr(x string) uint64 {
	h := uint64(14695981039346656037)
	for i := 0; i < len(x); i++ {
		h ^= uint64(x[i])
		h *= 1099511628211
	}
	return h
}

// fdCount returns the number of open descriptors of the process whose link
// target is path.
func fdCount(path string) int {
	ents, err := os.ReadDir("/proc/self/fd")
	if err != nil {
		return -1
	}
	n := 0
	for _, e := range ents {
		if l, err := os.Readlink("/proc/self/fd/" + e.Name()); err == nil && l == path {
			n++
		}
	}
	return n
}

// Current returns the scheduler's record of the calling goroutine (nil for a
// goroutine the scheduler does not know).
func (s *Sched) Current() *G {
	id := getg()
	s.mu.Lock()
	defer s.mu.Unlock()
	return s.gs[id]
}
