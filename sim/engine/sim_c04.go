package engine

import (
	"encoding/json"
	"fmt"
	"math"
	"math/rand/v2"
	"path/filepath"

	wt "github.com/hnakamur/whispertool"

	"wsim/model"
)

// C04: fetch window contract. The same queries are issued, at the same
// simulated instant, against a never-written file, a partially written file
// and a fully written file of one layout; every answer is compared with the
// shape model and the three answers with each other.

type C04Query struct {
	ID        int   `json:"id"`
	FromAge   int64 `json:"from_age"` // from = now - FromAge
	UntilAge  int64 `json:"until_age"`
	FromZero  bool  `json:"from_zero,omitempty"`
	Implicit  bool  `json:"implicit_now,omitempty"`
	UntilZero bool  `json:"until_zero,omitempty"` // until = 0 (the epoch), not "now"
	TickAt    int   `json:"tick_at,omitempty"`    // implicit now: the clock advances by TickD s at this statement of the call
	TickD     int64 `json:"tick_d,omitempty"`
	NowSkew   int64 `json:"now_skew,omitempty"` // explicit now: the clock value passed differs from the process clock by this much
}

type C04Case struct {
	Layout  Layout     `json:"layout"`
	Clock0  int64      `json:"clock0"`
	Partial []int      `json:"partial"`         // archives written in the partial file
	Ahead   []int64    `json:"ahead,omitempty"` // per archive: >0: the first point written to it is this many steps ahead of the clock (it becomes the base slot)
	Adv     int64      `json:"adv"`             // clock advance between filling and querying
	Queries []C04Query `json:"queries"`
}

type c04Sim struct{}

func (c04Sim) Name() string { return "c04" }

func (c04Sim) Decode(raw json.RawMessage) (interface{}, error) {
	var c C04Case
	if err := json.Unmarshal(raw, &c); err != nil {
		return nil, err
	}
	return &c, nil
}

func (c04Sim) Gen(prop, tier string, r *rand.Rand) interface{} {
	l := genLayout(r, pick(r, "tiny", "small", "small", "edge", "four", "page"))
	if r.IntN(25) == 0 {
		l = genLayout(r, "epoch")
	}
	c := &C04Case{Layout: l, Clock0: genClock0(r, l)}
	if chance(r, 0.12) && l.MaxRet() < 1<<30 {
		// edge clock domain: after 2038 (the format's timestamps are unsigned
		// 32-bit, its durations signed 32-bit)
		c.Clock0 = between(r, int64(math.MaxInt32)+1, int64(math.MaxUint32)-l.MaxRet()-2*400*86400)
	}
	n := len(l.Archs)
	for a := 0; a < n; a++ {
		if chance(r, 0.5) {
			c.Partial = append(c.Partial, a)
		}
	}
	if chance(r, 0.1) {
		// the archive's first point comes from a sender whose clock is ahead
		for a := 0; a < n; a++ {
			c.Ahead = append(c.Ahead, pick(r, int64(0), 1, 2, 5))
		}
	}
	switch r.IntN(4) {
	case 0:
		c.Adv = 0
	case 1:
		c.Adv = between(r, 1, l.Archs[0].S)
	case 2:
		c.Adv = between(r, 1, l.Archs[0].R())
	case 3:
		c.Adv = between(r, 1, l.MaxRet()+10)
	}
	// boundary ages
	var bset []int64
	for _, a := range l.Archs {
		d := pick(r, int64(1), a.S, a.S-1, a.S+1)
		bset = append(bset, a.R()+d, a.R(), a.R()-d, a.R()/2, a.S, a.S-1)
	}
	d := pick(r, int64(1), l.Archs[0].S, 2)
	bset = append(bset, d, 0, -d, 1, -1)
	nq := int(between(r, 8, 40))
	for i := 0; i < nq; i++ {
		q := C04Query{ID: int(between(r, -1, int64(n-1)))}
		if chance(r, 0.08) {
			q.ID = int(pick(r, int64(-3), -2, int64(n), int64(n+1), int64(n+2)))
		}
		switch r.IntN(5) {
		case 0: // boundary x boundary
			q.FromAge = bset[r.IntN(len(bset))]
			q.UntilAge = bset[r.IntN(len(bset))]
		case 1: // random pair inside the max retention
			q.FromAge = between(r, 0, l.MaxRet()+5)
			q.UntilAge = between(r, -3, q.FromAge)
		case 2: // degenerate and sub-step windows
			q.FromAge = between(r, 0, l.MaxRet())
			q.UntilAge = q.FromAge - between(r, 0, l.Archs[r.IntN(n)].S)
		case 3: // from > until
			q.UntilAge = between(r, 0, l.MaxRet())
			q.FromAge = q.UntilAge - between(r, 1, 50)
		case 4: // whole retention of an archive, or from = 0
			a := l.Archs[r.IntN(n)]
			q.FromAge = a.R()
			q.UntilAge = 0
			if chance(r, 0.4) {
				q.FromZero = true
			}
		}
		if q.ID == -1 && chance(r, 0.3) {
			q.Implicit = true
			if chance(r, 0.3) {
				// F3: the clock ticks between two statements of Fetch
				q.TickAt = int(between(r, 1, 12))
				q.TickD = between(r, 1, 3)
			}
		}
		if !q.Implicit && chance(r, 0.08) {
			// the caller's clock value is not the process clock (another host's
			// clock, a replayed instant)
			q.NowSkew = pick(r, int64(1), 2, 60, l.Archs[0].S, l.MaxRet(), -1, -l.Archs[0].S)
		}
		if chance(r, 0.04) {
			q.UntilZero = true
			if chance(r, 0.5) {
				q.FromZero = true
			}
		}
		c.Queries = append(c.Queries, q)
	}
	return c
}

func (c04Sim) Run(e *Env, ci interface{}) {
	c := ci.(*C04Case)
	if !c.Layout.Valid() || len(c.Queries) > 500 || c.Clock0 < 946684800 || c.Clock0 > math.MaxUint32-400*86400 || c.Adv < 0 || c.Adv > 2*400*86400 {
		e.Skip("invalid-case")
		return
	}
	for _, p := range c.Partial {
		if p < 0 || p >= len(c.Layout.Archs) {
			e.Skip("invalid-case")
			return
		}
	}
	archs := toModelArchs(c.Layout)
	SetClock(e, c.Clock0)
	paths := []string{filepath.Join(e.Dir, "empty.wsp"), filepath.Join(e.Dir, "partial.wsp"), filepath.Join(e.Dir, "full.wsp")}
	var dbs []*wt.Whisper
	defer func() {
		for _, d := range dbs {
			d.Close()
		}
	}()
	for _, p := range paths {
		db, err := c.Layout.create(p, wt.WithoutFlock())
		if err != nil {
			e.Violate("C04.create", "Create failed: %v", err)
			return
		}
		dbs = append(dbs, db)
	}
	now := Now()
	fill := func(db *wt.Whisper, ids []int) bool {
		for _, id := range ids {
			a := archs[id]
			if id < len(c.Ahead) && c.Ahead[id] > 0 && c.Ahead[id] <= 100 {
				ahead := []wt.Point{{Time: wt.Timestamp(now + c.Ahead[id]*a.S), Value: 7}}
				if _, pan := callSafely(func() error { return db.UpdatePointsForArchive(ahead, id, wt.Timestamp(now)) }); pan != "" {
					e.Skip("foreign-panic-in-update")
					return false
				}
				e.Probe("base-slot-holds-a-point-ahead-of-the-clock")
			}
			pts := []wt.Point{}
			for k := int64(0); k < a.N && k < 6; k++ {
				pts = append(pts, wt.Point{Time: wt.Timestamp(now - k*a.S), Value: wt.Value(float64(id*100) + float64(k))})
			}
			_, pan := callSafely(func() error { return db.UpdatePointsForArchive(pts, id, wt.Timestamp(now)) })
			if pan != "" {
				e.Skip("foreign-panic-in-update")
				return false
			}
		}
		return true
	}
	all := make([]int, len(archs))
	for i := range all {
		all[i] = i
	}
	if !fill(dbs[1], c.Partial) || !fill(dbs[2], all) {
		return
	}
	Advance(e, c.Adv)
	if c.Adv > 0 {
		e.Fault("F4.clock-advance")
	}
	now = Now()
	names := []string{"never-written", "partially-written", "fully-written"}
	for qi, q := range c.Queries {
		e.Op(qi)
		var want model.ShapeResult
		for fi, db := range dbs {
			now = Now()
			if !q.Implicit && q.NowSkew != 0 && now+q.NowSkew > 946684800 && now+q.NowSkew < math.MaxUint32-400*86400 {
				now += q.NowSkew // the explicit clock value of this query
				e.Probe("explicit-now-differs-from-the-process-clock")
			}
			oracle := "C04.shape"
			if now > math.MaxInt32 {
				oracle = "C04.shape-after-2038"
				e.Probe("clock-after-2038")
			}
			from := now - q.FromAge
			until := now - q.UntilAge
			if q.FromZero {
				from = 0
			}
			if q.UntilZero {
				until = 0
			}
			if from < 0 || until < 0 || from > math.MaxUint32 || until > math.MaxUint32 || q.TickD < 0 || q.TickD > 10 {
				continue
			}
			var ts *wt.TimeSeries
			var err error
			var pan string
			if q.Implicit && q.ID == -1 {
				wt.Now = timeNow
				if q.TickAt > 0 && q.TickD > 0 {
					n := 0
					wt.VerifYield = func(site int) {
						n++
						if n == q.TickAt {
							Advance(e, q.TickD)
							e.Fault("F3.clock-tick-inside-fetch")
						}
					}
				}
				err, pan = callSafely(func() error { var e2 error; ts, e2 = db.Fetch(wt.Timestamp(from), wt.Timestamp(until)); return e2 })
				wt.VerifYield = nil
			} else {
				err, pan = callSafely(func() error {
					var e2 error
					ts, e2 = db.FetchFromArchive(q.ID, wt.Timestamp(from), wt.Timestamp(until), wt.Timestamp(now))
					return e2
				})
			}
			desc := fmt.Sprintf("%s file, layout %s, archive id %d, window (now-%d, now-%d]%s%s", names[fi], c.Layout, q.ID, now-from, now-until,
				map[bool]string{true: " (from=0)", false: ""}[q.FromZero], map[bool]string{true: " (until=0)", false: ""}[q.UntilZero])
			if pan != "" {
				e.Violate(oracle, "%s: fetch panicked: %s", desc, pan)
				return
			}
			// the instant the call may have sampled: the start clock, or any second
			// up to the clock after the call when the clock ticked inside it
			now2 := Now()
			if !(q.Implicit && q.ID == -1) {
				now2 = now // an explicit clock value: the only instant the call may answer for
			}
			if now2 > now {
				desc += fmt.Sprintf(", the clock ticked %d s inside the call", now2-now)
			}
			var firstViol *Violation
			matched := false
			for inst := now; inst <= now2 && !matched; inst++ {
				saved := e.Viol
				e.Viol = nil
				want = model.Shape(archs, q.ID, from, until, inst)
				c04Compare(e, oracle, desc, ts, err, want, inst)
				if e.Viol == nil {
					matched = true
					if inst > now {
						e.Probe("fetch-answered-for-the-instant-after-the-tick")
					}
				} else if firstViol == nil {
					firstViol = e.Viol
				}
				e.Viol = saved
			}
			if !matched {
				if e.Viol == nil {
					e.Viol = firstViol
				}
				return
			}
			if want.Kind != model.ShapeSeries {
				e.Note("outcome/" + want.Kind.String())
				continue
			}
			if model.Floor(from, want.Step) == model.Floor(until, want.Step) && fi == 0 {
				e.Probe("degenerate-window-on-never-written-archive")
			}
			if from < now-archs[want.Archive].R() && until > now {
				e.Probe("window-clamped-at-both-ends")
			}
			if q.ID == -1 && want.Archive > 0 {
				e.Probe("best-archive-is-a-coarser-one")
			}
			if q.UntilZero {
				e.Probe("until-is-the-epoch")
			}
		}
		e.State(uint64(want.Kind)<<60 ^ uint64(want.Archive)<<50 ^ uint64(want.Count)<<20 ^ uint64(now-want.From))
	}
}

// c04Compare judges one fetch result against the shape the contract gives for
// the instant inst; it records a violation in e on a mismatch.
func c04Compare(e *Env, oracle, desc string, ts *wt.TimeSeries, err error, want model.ShapeResult, now int64) {
	got := model.ShapeSeries
	if err != nil {
		got = model.ShapeError
	} else if ts == nil {
		got = model.ShapeNone
	}
	if got != want.Kind {
		e.Violate(oracle, "%s: outcome %v (err=%v), the contract says %v", desc, got, err, want.Kind)
		return
	}
	if got != model.ShapeSeries {
		return
	}
	// Points() is asked first, on the fresh result: the i-th value belongs
	// to instant from+i*step whatever was called on the series before
	pointsFirst := ts.Points()
	if int64(len(pointsFirst)) != want.Count {
		e.Violate(oracle, "%s: Points() of the fresh result has %d points, the contract says %d", desc, len(pointsFirst), want.Count)
		return
	}
	if int64(ts.FromTime()) != want.From || int64(ts.UntilTime()) != want.Until || int64(ts.Step()) != want.Step || int64(len(ts.Values())) != want.Count {
		e.Violate(oracle, "%s: got from=now-%d until=now-%d step=%d count=%d, the contract says from=now-%d until=now-%d step=%d count=%d (archive %d)",
			desc, now-int64(ts.FromTime()), now-int64(ts.UntilTime()), ts.Step(), len(ts.Values()),
			now-want.From, now-want.Until, want.Step, want.Count, want.Archive)
		return
	}
	for i, p := range ts.Points() {
		if int64(p.Time) != want.From+int64(i)*want.Step {
			e.Violate(oracle, "%s: point %d carries time %d, expected from+i*step = %d", desc, i, p.Time, want.From+int64(i)*want.Step)
			return
		}
	}
}
