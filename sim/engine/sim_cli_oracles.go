package engine

import (
	"bytes"
	"errors"
	"fmt"
	"math"
	"os"
	"path/filepath"
	"sort"
	"strconv"
	"strings"

	wt "github.com/hnakamur/whispertool"
	"github.com/hnakamur/whispertool/cmd"

	"wsim/model"
)

func selected(archive, n int) []int {
	if archive == -1 {
		out := make([]int, n)
		for i := range out {
			out[i] = i
		}
		return out
	}
	if archive >= 0 && archive < n {
		return []int{archive}
	}
	return nil
}

func relAge(now, t int64) string { return fmt.Sprintf("now-%d", now-t) }

// filesOf returns the world files of a base, keyed by rel path.
func filesOf(c *CliCase, base string) map[string]WFile {
	m := map[string]WFile{}
	for _, f := range c.Files {
		if f.Base == base {
			m[f.Rel] = f
		}
	}
	return m
}

func matchGlob(pattern string, rels map[string]WFile, presentOnly bool) []string {
	var out []string
	for rel, f := range rels {
		if presentOnly && f.Absent {
			continue
		}
		if ok, _ := filepath.Match(pattern, rel); ok {
			out = append(out, rel)
		}
	}
	sort.Strings(out)
	return out
}

func hasMeta(p string) bool { return strings.ContainsAny(p, `*?[\`) }

// foreignPanic: a command that panics has not delivered what the property
// states for this world (the worlds of these checks are valid ones: C16 and
// C15 own the hostile environments). It is reported under the property's own
// "no-panic" oracle.
func foreignPanic(e *Env, res *cmdResult) bool {
	if res.aborted {
		return true // counted as command-did-not-terminate by the runner
	}
	if len(res.panics) > 0 {
		e.Violate(e.Prop+".no-panic", "the command panicked on a valid world: %s", res.panics[0])
		return true
	}
	var pe *parseError
	if errors.As(res.err, &pe) {
		// the flag parser refused the invocation: nothing was executed
		e.Skip("rejected-by-flag-parser")
		return true
	}
	return false
}

// nowLines extracts the clock values the command printed ("now:<t>" lines),
// keyed by the srcRel / item they introduce.
func nowLines(out string) map[string]int64 {
	m := map[string]int64{}
	for _, l := range parseOut(out) {
		ns, ok := l["now"]
		if !ok {
			continue
		}
		t, ok := parseTS(ns)
		if !ok {
			continue
		}
		if k, ok := l["srcRel"]; ok {
			m[k] = t
		} else if k, ok := l["item"]; ok {
			m[k] = t
		}
	}
	return m
}

// clockFor returns the clock value a multi-part command observed for one part:
// the command start clock unless a clock tick was injected, in which case the
// value the command printed for that part (which must lie between the start
// clock and the start clock plus the tick).
func clockFor(e *Env, c *CliCase, res *cmdResult, key string) (int64, bool) {
	if c.Tick == nil {
		return res.now, true
	}
	t, ok := nowLines(res.out)[key]
	if !ok || t < res.now || t > res.now+c.Tick.D {
		e.Skip("clock-of-part-unknown-under-tick")
		return 0, false
	}
	return t, true
}

// ---------------------------------------------------------------------------
// C08 copy

func checkCopy(e *Env, r *cliRunner, c *CliCase) {
	srcs := filesOf(c, "src")
	dsts := filesOf(c, "dst")
	var pairs [][2]string // src rel, dst rel
	if hasMeta(c.Cmd.Src) {
		for _, rel := range matchGlob(c.Cmd.Src, srcs, true) {
			pairs = append(pairs, [2]string{rel, rel})
		}
	} else {
		d := c.Cmd.Dest
		if d == "" {
			d = c.Cmd.Src
		}
		pairs = append(pairs, [2]string{c.Cmd.Src, d})
	}
	if len(pairs) == 0 {
		e.Skip("no-source-matched")
		return
	}
	srcBefore := map[string][]byte{}
	dstBefore := map[string][]byte{}
	for _, p := range pairs {
		srcBefore[p[0]] = readFile(filepath.Join(e.Dir, "src", p[0]))
		dstBefore[p[1]] = readFile(filepath.Join(e.Dir, "dst", p[1]))
	}
	res := r.run1(c.Cmd, "copy")
	if foreignPanic(e, res) {
		return
	}
	now := res.now
	from, until := c.Cmd.window(now)
	if from > until {
		e.Skip("from-after-until")
		return
	}
	// source never modified, whatever the outcome
	for _, p := range pairs {
		if !bytes.Equal(readFile(filepath.Join(e.Dir, "src", p[0])), srcBefore[p[0]]) {
			e.Violate("C08.source-untouched", "copy modified its source file %s", p[0])
			return
		}
	}
	// a layout mismatch, read off the world as it is (not off the generator's
	// intention): an existing destination with another archive list, or a
	// destination to create whose requested layout differs from the source's
	mismatch, mm := false, ""
	for _, p := range pairs {
		sf, okS := srcs[p[0]]
		df, okD := dsts[p[1]]
		if !okS || sf.Absent {
			continue
		}
		if okD && !df.Absent && df.Layout.String() != sf.Layout.String() {
			mismatch, mm = true, fmt.Sprintf("source %s, existing destination %s", sf.Layout, df.Layout)
		}
		if (!okD || df.Absent) && c.Cmd.Create.String() != sf.Layout.String() {
			mismatch, mm = true, fmt.Sprintf("source %s, destination to create %s", sf.Layout, c.Cmd.Create)
		}
	}
	if mismatch {
		if res.err == nil {
			e.Violate("C08.layout-mismatch", "copy between different layouts (%s) reported success", mm)
			return
		}
		for _, p := range pairs {
			if dstBefore[p[1]] != nil && !bytes.Equal(readFile(filepath.Join(e.Dir, "dst", p[1])), dstBefore[p[1]]) {
				e.Violate("C08.layout-mismatch", "copy refused a layout mismatch but changed the destination %s", p[1])
				return
			}
		}
		e.Probe("layout-mismatch-refused")
		return
	}
	n := len(srcs[pairs[0][0]].Layout.Archs)
	sel := selected(c.Cmd.Archive, n)
	if sel == nil {
		e.Skip("archive-out-of-range")
		return
	}
	if res.err != nil {
		if c.Tick != nil {
			// documented "retry" outcome under a clock tick: nothing may have been written
			for _, p := range pairs[:1] {
				if dstBefore[p[1]] != nil && !bytes.Equal(readFile(filepath.Join(e.Dir, "dst", p[1])), dstBefore[p[1]]) {
					e.Violate("C08.tick", "copy failed under a clock tick (%v) but changed the destination", res.err)
				}
			}
			e.Note("copy-failed-under-tick")
			return
		}
		e.Violate("C08.copy-fails", "copy of a valid source into a destination of equal layout failed: %v (window (%s, %s], archive %d)", res.err, relAge(now, from), relAge(now, until), c.Cmd.Archive)
		return
	}
	for _, p := range pairs {
		sp := filepath.Join(e.Dir, "src", p[0])
		dp := filepath.Join(e.Dir, "dst", p[1])
		now, ok := clockFor(e, c, res, p[0])
		if !ok {
			return
		}
		from, until := c.Cmd.window(res.now)
		if !c.Cmd.HasUntil {
			until = now
		}
		sv, err := viewFile(sp, from, until, now)
		if err != nil {
			e.Skip("source-unreadable")
			return
		}
		dv, err := viewFile(dp, from, until, now)
		if err != nil {
			e.Violate("C08.dest-created", "after a successful copy the destination %s cannot be read: %v", p[1], err)
			return
		}
		if dstBefore[p[1]] == nil {
			e.Probe("destination-created")
			if dv.hdr != headerBlock(c.Cmd.Create) {
				e.Violate("C08.dest-created", "created destination has header %q, requested %q", oneLine(dv.hdr), oneLine(headerBlock(c.Cmd.Create)))
				return
			}
		}
		copied := 0
		for _, a := range sel {
			s, d := sv.series[a], dv.series[a]
			if s == nil {
				continue
			}
			if d == nil || d.from != s.from || d.step != s.step || len(d.vals) != len(s.vals) {
				e.Violate("C08.equal", "archive %d: source and destination windows differ after the copy", a)
				return
			}
			for i, v := range s.vals {
				T := s.from + int64(i)*s.step
				if !math.IsNaN(v) {
					copied++
					if !model.SameValue(d.vals[i], v) {
						e.Violate("C08.equal", "file %s archive %d slot %s: source holds %v, destination holds %v after a successful copy (window (%s, %s], archive selection %d, copy-nan %v)",
							p[0], a, relAge(now, T), v, d.vals[i], relAge(now, from), relAge(now, until), c.Cmd.Archive, c.Cmd.CopyNaN)
						return
					}
				} else if c.Cmd.CopyNaN && !math.IsNaN(d.vals[i]) {
					e.Violate("C08.copy-nan", "file %s archive %d slot %s: source has no value, destination still holds %v after copy -copy-nan", p[0], a, relAge(now, T), d.vals[i])
					return
				}
			}
		}
		if copied > 0 {
			e.Probe("values-in-window")
		}
	}
	if len(pairs) > 1 {
		e.Probe("glob-copy")
	}
	// idempotence: the same copy at the same instant changes nothing
	after := map[string][]byte{}
	for _, p := range pairs {
		after[p[1]] = readFile(filepath.Join(e.Dir, "dst", p[1]))
	}
	if c.Tick == nil {
		res2 := r.run1(c.Cmd, "copy2")
		if len(res2.panics) == 0 {
			if res2.err != nil {
				e.Violate("C08.idempotent", "repeating the same copy failed: %v", res2.err)
				return
			}
			for _, p := range pairs {
				if !bytes.Equal(readFile(filepath.Join(e.Dir, "dst", p[1])), after[p[1]]) {
					e.Violate("C08.idempotent", "repeating the same copy changed the destination %s", p[1])
					return
				}
			}
		}
		// diff over the same window reports no line for a slot where the source has a value
		dc := c.Cmd
		dc.Kind = "diff"
		dres := r.run1(dc, "diff")
		if len(dres.panics) == 0 && (dres.err == nil || errors.Is(dres.err, cmd.ErrDiffFound)) {
			for _, l := range parseOut(dres.out) {
				if _, ok := l["srcVal"]; !ok {
					continue
				}
				if v, ok := parseVal(l["srcVal"]); ok && !math.IsNaN(v) {
					e.Violate("C08.diff-clean", "diff after a successful copy still lists a slot where the source has a value: %s", l["_raw"])
					return
				}
				if c.Cmd.CopyNaN {
					e.Violate("C08.diff-clean", "diff after copy -copy-nan still lists: %s", l["_raw"])
					return
				}
			}
		}
		// the same command value executed again later: with the default window a
		// point that reached the source meanwhile must be copied too (no state
		// may be carried from one Execute to the next)
		if !c.Cmd.HasUntil && !c.Cmd.HasFrom && res.built != nil && c.SchedSeed%3 == 0 {
			step0 := srcs[pairs[0][0]].Layout.Archs[0].S
			Advance(e, step0+int64(c.SchedSeed%5))
			now2 := Now()
			for _, p := range pairs {
				db, err := wt.Open(filepath.Join(e.Dir, "src", p[0]), wt.WithoutFlock())
				if err != nil {
					return
				}
				db.UpdatePointsForArchive([]wt.Point{{Time: wt.Timestamp(now2), Value: 4242.5}}, 0, wt.Timestamp(now2))
				db.Sync()
				db.Close()
			}
			res3 := r.rerun(res, "copy3")
			if len(res3.panics) > 0 || res3.aborted {
				return
			}
			if res3.err != nil {
				e.Violate("C08.copy-fails", "executing the same copy command value again %d s later failed: %v", now2-now, res3.err)
				return
			}
			for _, p := range pairs {
				sv, err1 := viewFile(filepath.Join(e.Dir, "src", p[0]), 0, now2, now2)
				dv, err2 := viewFile(filepath.Join(e.Dir, "dst", p[1]), 0, now2, now2)
				if err1 != nil || err2 != nil {
					return
				}
				for _, a := range sel {
					sa, da := sv.series[a], dv.series[a]
					if sa == nil || da == nil || len(sa.vals) != len(da.vals) {
						continue
					}
					for i, v := range sa.vals {
						if !math.IsNaN(v) && !model.SameValue(da.vals[i], v) {
							e.Violate("C08.equal", "file %s archive %d slot %s: the same command value executed again %d s later (default window) left the destination at %v where the source holds %v",
								p[0], a, relAge(now2, sa.from+int64(i)*sa.step), now2-now, da.vals[i], v)
							return
						}
					}
				}
			}
			e.Probe("command-value-executed-again-later")
		}
	}
}

// ---------------------------------------------------------------------------
// C09 diff

type diffKey struct {
	arch int
	t    int64
}

func checkDiff(e *Env, r *cliRunner, c *CliCase) {
	srcs := filesOf(c, "src")
	dsts := filesOf(c, "dst")
	var rels []string
	if hasMeta(c.Cmd.Src) {
		rels = matchGlob(c.Cmd.Src, srcs, true)
	} else {
		rels = []string{c.Cmd.Src}
	}
	if len(rels) == 0 {
		e.Skip("no-source-matched")
		return
	}
	res := r.run1(c.Cmd, "diff")
	if foreignPanic(e, res) {
		return
	}
	now := res.now
	from, until := c.Cmd.window(now)
	if from > until {
		e.Skip("from-after-until")
		return
	}
	mismatch := false
	for _, rel := range rels {
		drel := rel
		if c.Cmd.Dest != "" && !hasMeta(c.Cmd.Src) {
			drel = c.Cmd.Dest
		}
		sf, okS := srcs[rel]
		df, okD := dsts[drel]
		if okS && okD && !sf.Absent && !df.Absent && sf.Layout.String() != df.Layout.String() {
			mismatch = true
		}
	}
	if mismatch {
		if res.err == nil || errors.Is(res.err, cmd.ErrDiffFound) {
			e.Violate("C09.layout-mismatch", "diff between different layouts returned %v; an error other than 'difference found' is required", res.err)
		} else {
			e.Probe("layout-mismatch-is-an-error")
		}
		return
	}
	n := len(srcs[rels[0]].Layout.Archs)
	sel := selected(c.Cmd.Archive, n)
	if sel == nil {
		e.Skip("archive-out-of-range")
		return
	}
	// model difference set
	want := map[string]map[diffKey][2]float64{}
	missing := false
	dstRel := func(rel string) string {
		if c.Cmd.Dest != "" && !hasMeta(c.Cmd.Src) {
			return c.Cmd.Dest
		}
		return rel
	}
	for _, rel := range rels {
		if srcs[rel].Absent || dsts[dstRel(rel)].Absent {
			missing = true
			continue
		}
		sv, err1 := viewFile(filepath.Join(e.Dir, "src", rel), from, until, now)
		dv, err2 := viewFile(filepath.Join(e.Dir, "dst", dstRel(rel)), from, until, now)
		if err1 != nil || err2 != nil {
			e.Skip("world-unreadable")
			return
		}
		m := map[diffKey][2]float64{}
		for _, a := range sel {
			s, d := sv.series[a], dv.series[a]
			if s == nil || d == nil {
				continue
			}
			for i, v := range s.vals {
				w := d.vals[i]
				equal := (math.IsNaN(v) && math.IsNaN(w)) || (!math.IsNaN(v) && !math.IsNaN(w) && v == w)
				if !equal {
					m[diffKey{a, s.from + int64(i)*s.step}] = [2]float64{v, w}
				}
			}
		}
		want[rel] = m
	}
	anyDiff := missing
	for _, m := range want {
		if len(m) > 0 {
			anyDiff = true
		}
	}
	if missing {
		e.Probe("missing-side")
	}
	gotDiff := errors.Is(res.err, cmd.ErrDiffFound)
	if res.err != nil && !gotDiff {
		e.Violate("C09.verdict", "diff failed with %v; expected %s", res.err, map[bool]string{true: "'difference found'", false: "a clean verdict"}[anyDiff])
		return
	}
	if gotDiff != anyDiff {
		e.Violate("C09.verdict", "diff verdict difference-found=%v, but the files differ=%v in the window (%s, %s] of archive selection %d (missing side: %v)",
			gotDiff, anyDiff, relAge(now, from), relAge(now, until), c.Cmd.Archive, missing)
		return
	}
	// listing: exactly the differing slots, per file in order
	lines := parseOut(res.out)
	cur := ""
	got := map[string]map[diffKey][2]float64{}
	for _, l := range lines {
		if rel, ok := l["srcRel"]; ok {
			cur = rel
			if got[cur] == nil {
				got[cur] = map[diffKey][2]float64{}
			}
			continue
		}
		if _, ok := l["srcVal"]; !ok {
			continue
		}
		a, err := strconv.Atoi(l["archive"])
		t, ok1 := parseTS(l["t"])
		sv, ok2 := parseVal(l["srcVal"])
		dv, ok3 := parseVal(l["destVal"])
		dm, ok4 := parseVal(l["destMinusSrc"])
		if err != nil || !ok1 || !ok2 || !ok3 || !ok4 {
			e.Violate("C09.listing", "unparsable diff line: %s", l["_raw"])
			return
		}
		wantDm := dv - sv
		if math.IsNaN(sv) || math.IsNaN(dv) {
			wantDm = math.NaN()
		}
		if !model.SameValue(dm, wantDm) && !(dm == wantDm) {
			e.Violate("C09.listing", "line %q: destMinusSrc should be %v", l["_raw"], wantDm)
			return
		}
		if got[cur] == nil {
			got[cur] = map[diffKey][2]float64{}
		}
		got[cur][diffKey{a, t}] = [2]float64{sv, dv}
	}
	for rel, m := range want {
		g := got[rel]
		for k, v := range m {
			gv, ok := g[k]
			if !ok {
				e.Violate("C09.listing", "file %s archive %d slot %s differs (src %v, dest %v) but is not listed", rel, k.arch, relAge(now, k.t), v[0], v[1])
				return
			}
			if !model.SameValue(gv[0], v[0]) || !model.SameValue(gv[1], v[1]) {
				e.Violate("C09.listing", "file %s archive %d slot %s listed with values (%v,%v), the files hold (%v,%v)", rel, k.arch, relAge(now, k.t), gv[0], gv[1], v[0], v[1])
				return
			}
		}
		for k := range g {
			if _, ok := m[k]; !ok {
				e.Violate("C09.listing", "file %s archive %d slot %s is listed as different but both files hold equal values there", rel, k.arch, relAge(now, k.t))
				return
			}
		}
		if len(m) > 0 {
			e.Probe("differences-listed")
		} else {
			e.Probe("identical-files")
		}
	}
	if len(rels) > 1 {
		e.Probe("glob-diff")
	}
	// symmetry of the verdict; self-diff is clean
	if !missing {
		sc := c.Cmd
		sc.SwapBases = true
		sc.SrcRemote = false
		sc.DstRemote = false
		if sc.Dest != "" && !hasMeta(sc.Src) {
			sc.Src, sc.Dest = sc.Dest, sc.Src
		}
		sres := r.run1(sc, "swap")
		if len(sres.panics) == 0 && errors.Is(sres.err, cmd.ErrDiffFound) != gotDiff {
			e.Violate("C09.symmetric", "diff src->dest says difference=%v, dest->src says %v (%v)", gotDiff, errors.Is(sres.err, cmd.ErrDiffFound), sres.err)
			return
		}
	}
	self := c.Cmd
	self.SwapBases = false
	self.SrcRemote = false
	self.DstRemote = false
	self.Dest = ""
	selfRes := runSelfDiff(e, r, self)
	if selfRes != nil && len(selfRes.panics) == 0 && selfRes.err != nil && !srcsAnyAbsent(srcs, rels) {
		e.Violate("C09.self", "diff of a file with itself returned %v", selfRes.err)
	}
}

func srcsAnyAbsent(srcs map[string]WFile, rels []string) bool {
	for _, r := range rels {
		if srcs[r].Absent {
			return true
		}
	}
	return false
}

// runSelfDiff compares the source base with itself. Both sides open the same
// file with an exclusive lock one after the other; under the scheduler the
// second reader simply waits for the first.
func runSelfDiff(e *Env, r *cliRunner, c Cmd) *cmdResult {
	now := Now()
	command, _, err := buildCommand(e, c, now, "self")
	if err != nil {
		return nil
	}
	dc, ok := command.(*cmd.DiffCommand)
	if !ok {
		return nil
	}
	dc.DestBase = dc.SrcBase
	res := &cmdResult{now: now}
	r.s.Go("S0", func() {
		defer func() {
			if x := recover(); x != nil {
				if IsAbort(x) {
					panic(x)
				}
				res.panics = append(res.panics, fmt.Sprint(x))
			}
		}()
		res.err = dc.Execute()
	})
	r.s.Install()
	r.s.Run()
	Uninstall()
	return res
}

// ---------------------------------------------------------------------------
// C10 sum

// expectedSum computes, through library reads, the slot-wise NaN-skipping sum
// of the given files for the window.
func expectedSum(paths []string, from, until, now int64) ([]*seriesView, []model.Arch, error) {
	var acc []*seriesView
	var layout []model.Arch
	for fi, p := range paths {
		v, err := viewFile(p, from, until, now)
		if err != nil {
			return nil, nil, err
		}
		if fi == 0 {
			layout = v.layout
			for _, s := range v.series {
				if s == nil {
					acc = append(acc, nil)
					continue
				}
				acc = append(acc, &seriesView{from: s.from, until: s.until, step: s.step, vals: append([]float64(nil), s.vals...)})
			}
			continue
		}
		if !sameLayout(layout, v.layout) {
			return nil, nil, fmt.Errorf("layouts differ")
		}
		for a, s := range v.series {
			if s == nil || acc[a] == nil {
				continue
			}
			if len(s.vals) != len(acc[a].vals) || s.from != acc[a].from {
				return nil, nil, fmt.Errorf("library reads of the files give different windows")
			}
			for i, x := range s.vals {
				if math.IsNaN(x) {
					continue
				}
				if math.IsNaN(acc[a].vals[i]) {
					acc[a].vals[i] = x
				} else {
					acc[a].vals[i] += x
				}
			}
		}
	}
	return acc, layout, nil
}

// sumWorld lists, per item, the source files matched by the command.
func sumWorld(e *Env, c *CliCase) (items []string, files map[string][]string) {
	files = map[string][]string{}
	dirs := map[string]bool{}
	for _, f := range c.Files {
		if f.Base == "src" && !f.Absent {
			// every directory above the file is a candidate item
			for d := filepath.Dir(f.Rel); d != "." && d != "/"; d = filepath.Dir(d) {
				dirs[d] = true
			}
		}
	}
	for d := range dirs {
		if ok, _ := filepath.Match(c.Cmd.Item, d); ok {
			items = append(items, d)
		}
	}
	sort.Strings(items)
	for _, it := range items {
		for _, f := range c.Files {
			if f.Base == "src" && !f.Absent && strings.HasPrefix(f.Rel, it+"/") {
				// the file pattern is relative to the item directory and may name a
				// sub-directory
				if ok, _ := filepath.Match(c.Cmd.Src, f.Rel[len(it)+1:]); ok {
					files[it] = append(files[it], filepath.Join(e.Dir, "src", f.Rel))
				}
			}
		}
		sort.Strings(files[it])
	}
	return
}

func checkSum(e *Env, r *cliRunner, c *CliCase) {
	items, files := sumWorld(e, c)
	res := r.run1(c.Cmd, "sum")
	if foreignPanic(e, res) {
		return
	}
	now := res.now
	from, until := c.Cmd.window(now)
	if from > until {
		e.Skip("from-after-until")
		return
	}
	empty := len(items) == 0
	for _, it := range items {
		if len(files[it]) == 0 {
			empty = true
		}
	}
	if empty {
		if res.err == nil || !os.IsNotExist(res.err) {
			e.Violate("C10.not-exist", "sum over a pattern that matches nothing (item %q, src %q) returned %v; an error satisfying os.IsNotExist is required", c.Cmd.Item, c.Cmd.Src, res.err)
		} else {
			e.Probe("pattern-matching-nothing-is-not-exist")
		}
		return
	}
	if c.EnvFault == "layout-mismatch" {
		// only a violation if the mismatching file is among the matched ones
		mixed := false
		for _, it := range items {
			if _, _, err := expectedSum(files[it], from, until, now); err != nil {
				mixed = true
			}
		}
		if mixed {
			if res.err == nil {
				e.Violate("C10.layout-mismatch", "sum over files with differing layouts reported success")
			} else {
				e.Probe("differing-layouts-rejected")
			}
			return
		}
	}
	n := 0
	for _, f := range c.Files {
		if f.Base == "src" {
			n = len(f.Layout.Archs)
			break
		}
	}
	sel := selected(c.Cmd.Archive, n)
	if sel == nil {
		e.Skip("archive-out-of-range")
		return
	}
	for _, it := range items {
		// the archive selection must be valid for the layout of every item
		if _, lay, err := expectedSum(files[it], from, until, now); err == nil && selected(c.Cmd.Archive, len(lay)) == nil {
			e.Skip("archive-out-of-range")
			return
		}
	}
	if res.err != nil {
		if c.Tick != nil {
			e.Note("sum-failed-under-tick")
			return
		}
		e.Violate("C10.sum-fails", "sum over files of identical layout failed: %v", res.err)
		return
	}
	// parse the output per item
	lines := parseOut(res.out)
	gotItems := map[string][]outLine{}
	var order []string
	cur := ""
	for _, l := range lines {
		if it, ok := l["item"]; ok {
			cur = it
			order = append(order, it)
			continue
		}
		gotItems[cur] = append(gotItems[cur], l)
	}
	if len(order) != len(items) {
		e.Violate("C10.items", "sum printed %d items %v, the pattern matches %d directories %v", len(order), order, len(items), items)
		return
	}
	for _, it := range items {
		dotted := strings.ReplaceAll(it, "/", ".")
		now, ok := clockFor(e, c, res, dotted)
		if !ok {
			return
		}
		from, until := c.Cmd.window(res.now)
		if !c.Cmd.HasUntil {
			until = now
		}
		exp, _, err := expectedSum(files[it], from, until, now)
		if err != nil {
			e.Skip("world-unreadable")
			return
		}
		pl, bad := pointLines(gotItems[dotted])
		if bad != "" {
			e.Violate("C10.output", "%s", bad)
			return
		}
		sel := selected(c.Cmd.Archive, len(exp))
		var want []pointLine
		for _, a := range sel {
			if a >= len(exp) || exp[a] == nil {
				continue
			}
			for i, v := range exp[a].vals {
				want = append(want, pointLine{a, exp[a].from + int64(i)*exp[a].step, v})
			}
		}
		if len(pl) != len(want) {
			e.Violate("C10.sum", "item %s: %d point lines printed, the common window of the selected archives has %d slots (window (%s, %s], archive %d, %d files)",
				dotted, len(pl), len(want), relAge(now, from), relAge(now, until), c.Cmd.Archive, len(files[it]))
			return
		}
		for i := range want {
			if pl[i].arch != want[i].arch || pl[i].t != want[i].t || !(model.SameValue(pl[i].v, want[i].v) || pl[i].v == want[i].v) {
				e.Violate("C10.sum", "item %s line %d: printed archive %d %s value %v, the NaN-skipping sum of %d files is archive %d %s value %v",
					dotted, i, pl[i].arch, relAge(now, pl[i].t), pl[i].v, len(files[it]), want[i].arch, relAge(now, want[i].t), want[i].v)
				return
			}
		}
		if len(files[it]) > 1 && len(want) > 0 {
			e.Probe("sum-of-several-files")
		}
		if len(files[it]) == 1 {
			e.Probe("single-file-sums-to-itself")
		}
		if !c.Cmd.NoHeader {
			var hb string
			for _, f := range c.Files {
				if f.Base == "src" && filepath.Dir(f.Rel) == it {
					hb = headerBlock(f.Layout)
					break
				}
			}
			if !strings.Contains(res.out, hb) {
				e.Violate("C10.output", "header block missing or different in the sum output")
				return
			}
		}
	}
}

// ---------------------------------------------------------------------------
// C11 sum-copy / sum-diff

func checkSumCopy(e *Env, r *cliRunner, c *CliCase) {
	items, files := sumWorld(e, c)
	if len(items) == 0 {
		e.Skip("no-item-matched")
		return
	}
	for _, it := range items {
		if len(files[it]) == 0 {
			e.Skip("no-file-matched")
			return
		}
	}
	dstBefore := map[string][]byte{}
	for _, it := range items {
		dstBefore[it] = readFile(filepath.Join(e.Dir, "dst", it, c.Cmd.Dest))
	}
	res := r.run1(c.Cmd, "sumcopy")
	if foreignPanic(e, res) {
		return
	}
	// does the existing destination of a matched item have another layout?
	otherLayout := false
	for _, it := range items {
		for _, f := range c.Files {
			if f.Base == "dst" && !f.Absent && f.Rel == it+"/"+c.Cmd.Dest && f.Layout.String() != c.Cmd.Create.String() {
				otherLayout = true
			}
		}
	}
	now := res.now
	from, until := c.Cmd.window(now)
	if from > until {
		e.Skip("from-after-until")
		return
	}
	n := len(c.Cmd.Create.Archs)
	sel := selected(c.Cmd.Archive, n)
	if sel == nil {
		e.Skip("archive-out-of-range")
		return
	}
	if res.err != nil {
		if otherLayout {
			e.Probe("destination-with-another-layout-reported")
			return
		}
		if c.Tick != nil {
			e.Note("sum-copy-failed-under-tick")
			return
		}
		e.Violate("C11.sum-copy-fails", "sum-copy over valid sources failed: %v", res.err)
		return
	}
	if otherLayout {
		e.Violate("C11.equal", "sum-copy reported success although the existing destination of one matched item has another layout than the sources: that file cannot hold the series sum computes for the item")
		return
	}
	for _, it := range items {
		now, ok := clockFor(e, c, res, strings.ReplaceAll(it, "/", "."))
		if !ok {
			return
		}
		from, until := c.Cmd.window(res.now)
		if !c.Cmd.HasUntil {
			until = now
		}
		exp, _, err := expectedSum(files[it], from, until, now)
		if err != nil {
			e.Skip("world-unreadable")
			return
		}
		dp := filepath.Join(e.Dir, "dst", it, c.Cmd.Dest)
		dv, err := viewFile(dp, from, until, now)
		if err != nil {
			e.Violate("C11.dest-created", "after sum-copy the destination of item %s cannot be read: %v", it, err)
			return
		}
		if dstBefore[it] == nil {
			e.Probe("destination-created")
		}
		for _, a := range sel {
			if a >= len(exp) || a >= len(dv.series) {
				continue
			}
			s, d := exp[a], dv.series[a]
			if s == nil {
				continue
			}
			if d == nil || d.from != s.from || len(d.vals) != len(s.vals) {
				e.Violate("C11.equal", "item %s archive %d: windows differ after sum-copy", it, a)
				return
			}
			for i, v := range s.vals {
				if !(model.SameValue(d.vals[i], v) || d.vals[i] == v) {
					e.Violate("C11.equal", "item %s archive %d slot %s: the sum of %d files is %v, the destination holds %v after sum-copy (window (%s, %s], archive selection %d)",
						it, a, relAge(now, s.from+int64(i)*s.step), len(files[it]), v, d.vals[i], relAge(now, from), relAge(now, until), c.Cmd.Archive)
					return
				}
			}
			e.Probe("sum-stored")
		}
	}
	if c.Tick != nil {
		return
	}
	// sum-diff over the same window is clean
	dc := c.Cmd
	dc.Kind = "sum-diff"
	dres := r.run1(dc, "sumdiff")
	if len(dres.panics) > 0 {
		e.Skip("foreign-panic-in-command")
		return
	}
	if dres.err != nil {
		e.Violate("C11.sum-diff-clean", "sum-diff right after sum-copy returned %v", dres.err)
		return
	}
	for _, l := range parseOut(dres.out) {
		if _, ok := l["srcVal"]; ok {
			e.Violate("C11.sum-diff-clean", "sum-diff right after sum-copy lists %s", l["_raw"])
			return
		}
	}
	if c.Deviate == nil && !c.Cmd.HasFrom && !c.Cmd.HasUntil && res.built != nil && c.SchedSeed%3 == 0 {
		// the same command value executed again later: with the default window a
		// point that reached the sources meanwhile is part of the sum to store
		step0 := c.Cmd.Create.Archs[0].S
		Advance(e, step0+int64(c.SchedSeed%5))
		now2 := Now()
		for _, it := range items {
			db, err := wt.Open(files[it][0], wt.WithoutFlock())
			if err != nil {
				return
			}
			db.UpdatePointsForArchive([]wt.Point{{Time: wt.Timestamp(now2), Value: 4242.5}}, 0, wt.Timestamp(now2))
			db.Sync()
			db.Close()
		}
		res3 := r.rerun(res, "sumcopy3")
		if len(res3.panics) > 0 || res3.aborted {
			return
		}
		if res3.err != nil {
			e.Violate("C11.sum-copy-fails", "executing the same sum-copy command value again %d s later failed: %v", now2-now, res3.err)
			return
		}
		from2, until2 := c.Cmd.window(now2)
		for _, it := range items {
			exp, _, err := expectedSum(files[it], from2, until2, now2)
			if err != nil {
				return
			}
			dv, err := viewFile(filepath.Join(e.Dir, "dst", it, c.Cmd.Dest), from2, until2, now2)
			if err != nil {
				return
			}
			for _, a := range sel {
				if a >= len(exp) || a >= len(dv.series) || exp[a] == nil || dv.series[a] == nil || len(exp[a].vals) != len(dv.series[a].vals) {
					continue
				}
				for i, v := range exp[a].vals {
					if d := dv.series[a].vals[i]; !(model.SameValue(d, v) || d == v) {
						e.Violate("C11.equal", "item %s archive %d slot %s: the same command value executed again %d s later (default window): the sum of %d files is %v, the destination holds %v",
							it, a, relAge(now2, exp[a].from+int64(i)*exp[a].step), now2-now, len(files[it]), v, d)
						return
					}
				}
			}
		}
		e.Probe("command-value-executed-again-later")
		return
	}
	// deliberate deviation written through the library
	if c.Deviate == nil || c.DevArch < 0 || c.DevArch >= n {
		return
	}
	it := items[int(c.Deviate.Age)%len(items)]
	dp := filepath.Join(e.Dir, "dst", it, c.Cmd.Dest)
	db, err := wt.Open(dp, wt.WithoutFlock())
	if err != nil {
		return
	}
	t := now - c.Deviate.Age
	devV := float64(c.Deviate.V)
	if c.UlpDev {
		// one unit in the last place away from what the slot holds now
		if raw, rerr := rawOf(db, c.DevArch); rerr == nil {
			a := model.Arch{S: c.Cmd.Create.Archs[c.DevArch].S, N: c.Cmd.Create.Archs[c.DevArch].N}
			if cur := model.Project(a, raw, model.Floor(t, a.S)); !math.IsNaN(cur) && !math.IsInf(cur, 0) {
				devV = math.Nextafter(cur, math.Inf(1))
				e.Probe("deviation-of-one-ulp")
			}
		}
	}
	_, pan := callSafely(func() error {
		return db.UpdatePointsForArchive([]wt.Point{{Time: wt.Timestamp(t), Value: wt.Value(devV)}}, c.DevArch, wt.Timestamp(now))
	})
	db.Sync()
	db.Close()
	if pan != "" {
		return
	}
	// expected deviations of every item (only the chosen one can deviate)
	want := map[string]map[diffKey]bool{}
	nwant := 0
	for _, it2 := range items {
		exp, _, err := expectedSum(files[it2], from, until, now)
		if err != nil {
			return
		}
		dv, err := viewFile(filepath.Join(e.Dir, "dst", it2, c.Cmd.Dest), from, until, now)
		if err != nil {
			return
		}
		m := map[diffKey]bool{}
		for _, a := range sel {
			if a >= len(exp) || a >= len(dv.series) {
				continue
			}
			s, d := exp[a], dv.series[a]
			if s == nil || d == nil {
				continue
			}
			for i, v := range s.vals {
				w := d.vals[i]
				equal := (math.IsNaN(v) && math.IsNaN(w)) || (!math.IsNaN(v) && !math.IsNaN(w) && v == w)
				if !equal {
					m[diffKey{a, s.from + int64(i)*s.step}] = true
					nwant++
				}
			}
		}
		want[strings.ReplaceAll(it2, "/", ".")] = m
	}
	d2 := r.run1(dc, "sumdiff2")
	if len(d2.panics) > 0 || d2.aborted {
		return
	}
	gotDiff := errors.Is(d2.err, cmd.ErrDiffFound)
	if d2.err != nil && !gotDiff {
		e.Violate("C11.sum-diff-detects", "sum-diff after a deviation failed: %v", d2.err)
		return
	}
	if gotDiff != (nwant > 0) {
		e.Violate("C11.sum-diff-detects", "the destination of item %s deviates from the sum in %d slot(s) of the window (%d items compared) but sum-diff reports difference=%v", it, nwant, len(items), gotDiff)
		return
	}
	got := map[string]map[diffKey]bool{}
	cur := ""
	for _, l := range parseOut(d2.out) {
		if name, ok := l["item"]; ok {
			cur = name
			continue
		}
		if _, ok := l["srcVal"]; !ok {
			continue
		}
		a, _ := strconv.Atoi(l["archive"])
		t, ok := parseTS(l["t"])
		if !ok {
			e.Violate("C11.sum-diff-detects", "unparsable line %s", l["_raw"])
			return
		}
		if got[cur] == nil {
			got[cur] = map[diffKey]bool{}
		}
		got[cur][diffKey{a, t}] = true
	}
	for name, m := range want {
		for k := range m {
			if !got[name][k] {
				e.Violate("C11.sum-diff-detects", "item %s: deviating slot archive %d %s is not listed by sum-diff", name, k.arch, relAge(now, k.t))
				return
			}
		}
	}
	for name, m := range got {
		for k := range m {
			if !want[name][k] {
				e.Violate("C11.sum-diff-detects", "item %s: sum-diff lists archive %d %s, which does not deviate from the sum", name, k.arch, relAge(now, k.t))
				return
			}
		}
	}
	if len(items) > 1 && nwant > 0 {
		e.Probe("deviation-in-one-of-several-items")
	}
	want2 := nwant
	_ = want2
	if nwant > 0 {
		e.Probe("deviation-detected")
	}
}

// ---------------------------------------------------------------------------
// C18 view / view-raw

func checkView(e *Env, r *cliRunner, c *CliCase) {
	res := r.run1(c.Cmd, "view")
	if foreignPanic(e, res) {
		return
	}
	now := res.now
	from, until := c.Cmd.window(now)
	if from > until {
		e.Skip("from-after-until")
		return
	}
	f := c.Files[0]
	sel := selected(c.Cmd.Archive, len(f.Layout.Archs))
	if sel == nil {
		e.Skip("archive-out-of-range")
		return
	}
	if res.err != nil {
		e.Violate("C18.view-fails", "view of a valid file failed: %v", res.err)
		return
	}
	v, err := viewFile(f.path(e), from, until, now)
	if err != nil {
		e.Skip("world-unreadable")
		return
	}
	out := res.out
	hb := headerBlock(f.Layout)
	if !c.Cmd.NoHeader {
		if !strings.HasPrefix(out, hb) {
			e.Violate("C18.header", "view output does not start with the header block; got %q want %q", trunc(oneLine(out), 200), oneLine(hb))
			return
		}
		out = out[len(hb):]
	}
	var want []pointLine
	for _, a := range sel {
		if v.series[a] == nil {
			continue
		}
		for i, x := range v.series[a].vals {
			want = append(want, pointLine{a, v.series[a].from + int64(i)*v.series[a].step, x})
		}
	}
	lines := parseOut(out)
	if len(lines) != len(want) {
		e.Violate("C18.view-lines", "view printed %d lines after the header, the selected windows have %d slots", len(lines), len(want))
		return
	}
	pl, bad := pointLines(lines)
	if bad != "" || len(pl) != len(want) {
		e.Violate("C18.view-lines", "view output has lines that are not point lines: %s", bad)
		return
	}
	for i := range want {
		if pl[i].arch != want[i].arch || pl[i].t != want[i].t || !model.SameValue(pl[i].v, want[i].v) {
			e.Violate("C18.view-lines", "line %d: printed archive %d t=%s val=%v, the fetch holds archive %d t=%s val=%v (bitwise comparison)",
				i, pl[i].arch, relAge(now, pl[i].t), pl[i].v, want[i].arch, relAge(now, want[i].t), want[i].v)
			return
		}
		if x := want[i].v; !math.IsNaN(x) && x != math.Trunc(x) {
			e.Probe("non-integer-value-round-trips")
		}
		if math.IsInf(want[i].v, 0) {
			e.Probe("infinity-printed")
		}
	}
	e.Probe("view-checked")
	// every non-NaN view point inside the range appears in view-raw
	rc := c.Cmd
	rc.Kind = "view-raw"
	rc.NoHeader = true
	rres := r.run1(rc, "raw")
	if len(rres.panics) > 0 || rres.err != nil {
		return
	}
	rpl, bad := pointLines(parseOut(rres.out))
	if bad != "" {
		return
	}
	have := map[pointLine]bool{}
	for _, p := range rpl {
		have[pointLine{p.arch, p.t, 0}] = true
		have[pointLine{p.arch, p.t, p.v}] = true
	}
	for _, w := range want {
		if math.IsNaN(w.v) {
			continue
		}
		inRange := (from == 0 || w.t > from) && w.t <= until
		if !inRange {
			continue
		}
		if !have[pointLine{w.arch, w.t, w.v}] {
			e.Violate("C18.view-in-raw", "view shows archive %d %s = %v inside the requested range, view-raw does not show that point", w.arch, relAge(now, w.t), w.v)
			return
		}
	}
}

func checkViewRaw(e *Env, r *cliRunner, c *CliCase) {
	res := r.run1(c.Cmd, "raw")
	if foreignPanic(e, res) {
		return
	}
	now := res.now
	from, until := c.Cmd.window(now)
	if from > until {
		e.Skip("from-after-until")
		return
	}
	f := c.Files[0]
	sel := selected(c.Cmd.Archive, len(f.Layout.Archs))
	if sel == nil {
		e.Skip("archive-out-of-range")
		return
	}
	if res.err != nil {
		e.Violate("C18.view-raw-fails", "view-raw of a valid file failed: %v", res.err)
		return
	}
	if from == until {
		e.Skip("view-raw-degenerate-range")
		return
	}
	v, err := viewFile(f.path(e), 0, now, now)
	if err != nil {
		e.Skip("world-unreadable")
		return
	}
	out := res.out
	hb := headerBlock(f.Layout)
	if !c.Cmd.NoHeader {
		if !strings.HasPrefix(out, hb) {
			e.Violate("C18.header", "view-raw output does not start with the header block")
			return
		}
		out = out[len(hb):]
	}
	var want []pointLine
	for _, a := range sel {
		var pts []pointLine
		u := until
		if u == from {
			u += f.Layout.Archs[a].S
		}
		for _, s := range v.raws[a] {
			if (from != 0 && s.I <= from) || s.I > u {
				continue
			}
			pts = append(pts, pointLine{a, s.I, s.V})
		}
		if c.Cmd.Sort {
			sort.SliceStable(pts, func(i, j int) bool { return pts[i].t < pts[j].t })
		}
		want = append(want, pts...)
	}
	pl, bad := pointLines(parseOut(out))
	if bad != "" {
		e.Violate("C18.view-raw-lines", "%s", bad)
		return
	}
	if len(pl) != len(want) {
		e.Violate("C18.view-raw-lines", "view-raw printed %d slots, %d physical slots of the selected archives lie in the range (%s, %s]", len(pl), len(want), relAge(now, from), relAge(now, until))
		return
	}
	for i := range want {
		if pl[i].arch != want[i].arch || pl[i].t != want[i].t || !model.SameValue(pl[i].v, want[i].v) {
			e.Violate("C18.view-raw-lines", "line %d: printed archive %d t=%d val=%v, expected archive %d t=%d val=%v (sort=%v)", i, pl[i].arch, pl[i].t, pl[i].v, want[i].arch, want[i].t, want[i].v, c.Cmd.Sort)
			return
		}
	}
	if len(want) > 0 {
		e.Probe("view-raw-checked")
	}
	if from == 0 {
		total := 0
		for _, a := range sel {
			total += int(f.Layout.Archs[a].N)
		}
		if !c.Cmd.HasUntil && len(pl) != total {
			// with the default range every slot whose time is <= now is shown;
			// empty slots carry time 0 and are shown as well
			e.Note("view-raw-default-range-hides-future-slots")
		}
	}
}

// ---------------------------------------------------------------------------
// C20 generate

func checkGenerate(e *Env, r *cliRunner, c *CliCase) {
	dp := filepath.Join(e.Dir, "dst", c.Cmd.Dest)
	os.MkdirAll(filepath.Dir(dp), 0o755)
	before := readFile(dp)
	if c.EnvFault == "dest-race" && c.Race != nil {
		// two generate commands race for the same new destination; the first is
		// parked at a seeded statement while the second runs
		rs := r.run([]Cmd{c.Cmd, *c.Race}, []string{"gen", "race"})
		for _, x := range rs {
			if foreignPanic(e, x) {
				return
			}
		}
		ok0, ok1 := rs[0].err == nil, rs[1].err == nil
		switch {
		case ok0 && ok1:
			e.Violate("C20.no-overwrite", "two generate commands racing for the same new destination both reported success: one of them replaced the file the other had created")
		case ok0 || ok1:
			w := *c
			if ok1 {
				w.Cmd = *c.Race
			}
			checkGenerateAt(e, &w, dp, rs[0].now)
			if e.Viol != nil {
				e.Viol.Message = "two generate commands raced for the destination, one was refused; the file left by the other: " + e.Viol.Message
				return
			}
			e.Probe("racing-creator-refused")
		default:
			e.Note("racing-creators-both-refused")
		}
		return
	}
	if c.Cmd.TextOut == "stdout" {
		// the worker's own standard output must not be polluted; with the
		// stdout-unwritable environment nothing can be written to it
		sink := os.DevNull
		if c.EnvFault == "stdout-unwritable" {
			sink = "/dev/full"
			e.Fault("F6.stdout-unwritable")
		}
		if f, err := os.OpenFile(sink, os.O_WRONLY, 0); err == nil {
			old := os.Stdout
			os.Stdout = f
			defer func() { os.Stdout = old; f.Close() }()
		}
	}
	var res *cmdResult
	if c.EnvFault == "disk-full" {
		size := int64(16 + 12*len(c.Cmd.Create.Archs))
		for _, a := range c.Cmd.Create.Archs {
			size += 12 * a.N
		}
		limit := int64(c.SchedSeed % uint64(size))
		withWriteLimit(limit, func() error { res = r.run1(c.Cmd, "gen"); return nil })
		e.Fault("F10.disk-full-while-generating")
	} else {
		res = r.run1(c.Cmd, "gen")
	}
	if foreignPanic(e, res) {
		return
	}
	now := res.now
	if before != nil {
		// the destination existed (read off the world, not off the generator's label)
		if res.err == nil {
			e.Violate("C20.no-overwrite", "generate onto an existing file reported success")
			return
		}
		if !bytes.Equal(readFile(dp), before) {
			e.Violate("C20.no-overwrite", "generate refused an existing file but changed its bytes")
			return
		}
		e.Probe("existing-destination-refused")
		return
	}
	if res.err != nil {
		if c.EnvFault == "textout-devfull" || c.EnvFault == "stdout-unwritable" || c.EnvFault == "disk-full" {
			// the report could not be written: a loud failure; nothing is claimed
			e.Probe("unwritable-report-is-a-failure")
			return
		}
		e.Violate("C20.generate-fails", "generate with a valid layout failed: %v", res.err)
		return
	}
	if c.Tick != nil && !e.inTickRetry {
		// the generation instant is the clock value generate sampled: the start
		// clock, or the start clock plus the tick if the tick came first. The
		// file must be complete and consistent for one of the two.
		e.inTickRetry = true
		defer func() { e.inTickRetry = false }()
		var first *Violation
		for _, inst := range []int64{res.now, res.now + c.Tick.D} {
			saved := e.Viol
			e.Viol = nil
			checkGenerateAt(e, c, dp, inst)
			if e.Viol == nil {
				e.Viol = saved
				e.Probe("generate-under-clock-tick-consistent")
				return
			}
			if first == nil {
				first = e.Viol
			}
			e.Viol = saved
		}
		if e.Viol == nil {
			e.Viol = first
		}
		return
	}
	checkGenerateAt(e, c, dp, now)
	if e.Failed() || c.Tick != nil || !c.Cmd.Fill || c.SchedSeed%3 != 2 {
		return
	}
	// the same command value executed again later for another destination must
	// generate for the new instant
	gc, ok := res.built.(*cmd.GenerateCommand)
	if !ok {
		return
	}
	Advance(e, c.Cmd.Create.Archs[0].S*2+int64(c.SchedSeed%5))
	dp2 := filepath.Join(e.Dir, "dst", "g", "second.wsp")
	gc.Dest = dp2
	res2 := r.rerun(res, "gen2")
	if res2.aborted || len(res2.panics) > 0 {
		return
	}
	if res2.err != nil {
		e.Violate("C20.generate-fails", "executing the same generate command value again for another destination failed: %v", res2.err)
		return
	}
	checkGenerateAt(e, c, dp2, res2.now)
	if e.Viol != nil {
		e.Viol.Message = "the same command value executed again " + fmt.Sprint(res2.now-now) + " s later for a second destination: " + e.Viol.Message
		return
	}
	e.Probe("command-value-executed-again-later")
}

func checkGenerateAt(e *Env, c *CliCase, dp string, now int64) {
	l := c.Cmd.Create
	v, err := viewFile(dp, 0, now, now)
	if err != nil {
		e.Violate("C20.header", "generated file cannot be opened: %v", err)
		return
	}
	if v.hdr != headerBlock(l) {
		e.Violate("C20.header", "generated header %q, requested %q", oneLine(v.hdr), oneLine(headerBlock(l)))
		return
	}
	if !c.Cmd.Fill {
		for a, raw := range v.raws {
			for i, s := range raw {
				if s.I != 0 || s.V != 0 {
					e.Violate("C20.no-fill", "generate -fill=false: archive %d slot %d holds (%d,%v)", a, i, s.I, s.V)
					return
				}
			}
		}
		e.Probe("no-fill-all-empty")
		return
	}
	// every slot of every archive's retention up to the generation instant
	archs := toModelArchs(l)
	for a, ar := range archs {
		maxv := float64(c.Cmd.RandMax) * float64(ar.S) / float64(archs[0].S)
		last := model.Floor(now, ar.S)
		for k := int64(0); k < ar.N; k++ {
			T := last - k*ar.S
			x := model.Project(ar, v.raws[a], T)
			if math.IsNaN(x) {
				e.Violate("C20.fill-complete", "archive %d (%ds x %d): slot %s inside the retention is empty after generate -fill (generation instant %d, %d past the step boundary)",
					a, ar.S, ar.N, relAge(now, T), now, now-last)
				return
			}
			if x < 0 || x > maxv {
				e.Violate("C20.fill-range", "archive %d slot %s holds %v, outside [0, %v]", a, relAge(now, T), x, maxv)
				return
			}
		}
	}
	// coarser slots fully covered by retained finer slots equal their sum
	covered := 0
	for a := 1; a < len(archs); a++ {
		fine, coarse := archs[a-1], archs[a]
		ratio := coarse.S / fine.S
		oldestFine := model.Floor(now, fine.S) - (fine.N-1)*fine.S
		lastC := model.Floor(now, coarse.S)
		for k := int64(0); k < coarse.N; k++ {
			T := lastC - k*coarse.S
			if T < oldestFine || T+(ratio-1)*fine.S > model.Floor(now, fine.S) {
				continue // not fully covered by retained finer slots
			}
			sum := 0.0
			ok := true
			for j := int64(0); j < ratio; j++ {
				x := model.Project(fine, v.raws[a-1], T+j*fine.S)
				if math.IsNaN(x) {
					ok = false
					break
				}
				sum += x
			}
			if !ok {
				continue
			}
			covered++
			got := model.Project(coarse, v.raws[a], T)
			if got != sum {
				e.Violate("C20.coarse-is-sum", "archive %d slot %s holds %v but its %d finer slots, all retained, sum to %v (generation instant %d past the coarse boundary, %d past the fine boundary)",
					a, relAge(now, T), got, ratio, sum, now-lastC, now-model.Floor(now, fine.S))
				return
			}
		}
	}
	if covered > 0 {
		e.Probe("fully-covered-coarse-slots-checked")
	}
	e.Probe("filled-file-checked")
}
