package engine

import (
	"fmt"
	"math"
	"math/rand/v2"
	"path/filepath"
	"strconv"
	"strings"

	wt "github.com/hnakamur/whispertool"
)

// Arch is one archive of a layout: N slots of S seconds.
type Arch struct {
	S int64 `json:"s"`
	N int64 `json:"n"`
}

// Layout is a file configuration.
type Layout struct {
	Archs  []Arch  `json:"archs"`
	Method int     `json:"method"` // 1 average 2 sum 3 last 4 max 5 min 6 first
	Xff    float64 `json:"xff"`    // value of the float32
}

func (a Arch) R() int64 { return a.S * a.N }

func (l Layout) MaxRet() int64 { return l.Archs[len(l.Archs)-1].R() }

func (l Layout) MaxStep() int64 { return l.Archs[len(l.Archs)-1].S }

func (l Layout) String() string {
	var parts []string
	for _, a := range l.Archs {
		parts = append(parts, fmt.Sprintf("%ds:%ds", a.S, a.R()))
	}
	return strings.Join(parts, ",")
}

// RetString prints the layout in retention syntax with second units.
func (l Layout) RetString() string { return l.String() }

// Valid re-states the layout rules (used to reject shrunk cases, never as an
// oracle).
func (l Layout) Valid() bool {
	if len(l.Archs) == 0 || len(l.Archs) > 6 {
		return false
	}
	if l.Method < 1 || l.Method > 6 || !(l.Xff >= 0 && l.Xff <= 1) {
		return false
	}
	total := int64(0)
	for i, a := range l.Archs {
		if a.S <= 0 || a.N <= 0 || a.R() > math.MaxInt32 {
			return false
		}
		total += a.N
		if i+1 < len(l.Archs) {
			b := l.Archs[i+1]
			if !(a.S < b.S) || b.S%a.S != 0 || !(a.R() < b.R()) || a.N < b.S/a.S {
				return false
			}
		}
	}
	return total <= 200000
}

func (l Layout) wtList() wt.ArchiveInfoList {
	var out wt.ArchiveInfoList
	for _, a := range l.Archs {
		out = append(out, wt.NewArchiveInfo(wt.Duration(a.S), uint32(a.N)))
	}
	return out
}

func (l Layout) create(path string, opts ...wt.Option) (*wt.Whisper, error) {
	return wt.Create(path, l.wtListVariant(hashStr(filepath.Base(path)+"|"+l.String()+"|"+methodName(l.Method))), wtMethod(l.Method), float32(l.Xff), opts...)
}

// wtListVariant builds the archive list in one of the ways a caller may: from
// fresh NewArchiveInfo values, by parsing the retention string, or as a slice
// of a longer parsed list (whose entries carry the offsets of that longer
// list) - the file created from it must be the same in every case.
func (l Layout) wtListVariant(h uint64) wt.ArchiveInfoList {
	switch h % 5 {
	case 0:
		if al, err := wt.ParseArchiveInfoList(l.String()); err == nil {
			return al
		}
	case 1:
		last := l.Archs[len(l.Archs)-1]
		longer := fmt.Sprintf("%s,%ds:%ds", l.String(), last.S*2, last.S*2*(last.N+3))
		if al, err := wt.ParseArchiveInfoList(longer); err == nil && len(al) == len(l.Archs)+1 {
			return al[:len(l.Archs)]
		}
	}
	return l.wtList()
}

// wtMethod maps the format's method number (1 average, 2 sum, 3 last, 4 max,
// 5 min, 6 first - the numbering of the classic Whisper format) to
// whispertool's constant of that NAME, so that a file is always created "as
// max", never "as whatever whispertool calls number 4".
func wtMethod(m int) wt.AggregationMethod {
	switch m {
	case 1:
		return wt.Average
	case 2:
		return wt.Sum
	case 3:
		return wt.Last
	case 4:
		return wt.Max
	case 5:
		return wt.Min
	case 6:
		return wt.First
	}
	return wt.AggregationMethod(m)
}

func methodName(m int) string {
	return [...]string{"?", "average", "sum", "last", "max", "min", "first"}[m]
}

func xffString(x float64) string { return strconv.FormatFloat(x, 'f', -1, 32) }

var xffChoices = []float64{0, 0.25, 0.5, 1, float64(float32(0.1)), float64(float32(1.0 / 3)), 0.75, float64(float32(0.2))}

func genXff(r *rand.Rand, ratio int64) float64 {
	switch r.IntN(4) {
	case 0:
		return xffChoices[r.IntN(len(xffChoices))]
	case 1:
		if ratio > 0 {
			k := r.Int64N(ratio + 1)
			return float64(float32(float64(k) / float64(ratio)))
		}
		return 0.5
	case 2:
		return float64(float32(r.Float64()))
	}
	return pick(r, 0.0, 0.5, 1.0)
}

var stepChoices = []int64{1, 2, 5, 10, 60}
var ratioChoices = []int64{2, 3, 4, 5, 6, 10, 12, 60}

// genLayout draws a layout of the given class.
func genLayout(r *rand.Rand, class string) Layout {
	var archs []Arch
	switch class {
	case "tiny":
		archs = []Arch{{S: pick(r, stepChoices...), N: between(r, 1, 3)}}
	case "prod":
		archs = []Arch{{60, 1800}, {3600, 768}, {86400, 400}}
	case "big":
		// more than 5461 slots (64 KiB of slots) in one archive
		archs = []Arch{{pick(r, int64(1), 1, 2), between(r, 5500, 12000)}}
	case "page":
		s0 := pick(r, int64(1), 1, 2, 10)
		n0 := between(r, 342, 900)
		archs = []Arch{{s0, n0}}
		if chance(r, 0.7) {
			ratio := pick(r, ratioChoices...)
			s1 := s0 * ratio
			n1 := s0*n0/s1 + 1 + between(r, 0, 400)
			archs = append(archs, Arch{s1, n1})
		}
	case "epoch":
		// the coarsest retention reaches back beyond the epoch: now - retention
		// is negative for every clock before the 2030s (a legal layout, e.g.
		// 1d:1y,30d:65y)
		archs = []Arch{{86400, between(r, 30, 400)}, {2592000, between(r, 700, 820)}}
		if chance(r, 0.3) {
			archs = archs[1:]
		}
	case "edge":
		s0 := pick(r, stepChoices...)
		ratio := pick(r, int64(2), 3, 4, 5, 6)
		archs = []Arch{{s0, ratio}, {s0 * ratio, 2}}
		if chance(r, 0.4) {
			ratio2 := int64(2)
			archs = append(archs, Arch{s0 * ratio * ratio2, 2})
		}
	case "four":
		s := pick(r, int64(1), 2, 5)
		n := between(r, 4, 24)
		archs = []Arch{{s, n}}
		for i := 0; i < 3; i++ {
			prev := archs[len(archs)-1]
			var ok []int64
			for _, q := range []int64{2, 3, 4, 5, 6} {
				if q <= prev.N {
					ok = append(ok, q)
				}
			}
			ratio := ok[r.IntN(len(ok))]
			s2 := prev.S * ratio
			n2 := prev.R()/s2 + 1 + between(r, 0, 10)
			if n2 < 6 {
				n2 = 6
			}
			archs = append(archs, Arch{s2, n2})
		}
	default: // small
		k := int(between(r, 2, 3))
		s := pick(r, stepChoices...)
		ratio := pick(r, ratioChoices...)
		n := between(r, ratio, 40)
		if chance(r, 0.2) {
			n = ratio
		}
		archs = []Arch{{s, n}}
		for i := 1; i < k; i++ {
			prev := archs[len(archs)-1]
			s2 := prev.S * ratio
			// next ratio must fit into this archive's point count
			nextRatio := pick(r, int64(2), 3, 4, 5, 6)
			minN := prev.R()/s2 + 1
			n2 := minN + between(r, 0, 12)
			if chance(r, 0.25) {
				n2 = minN
			}
			if i+1 < k && n2 < nextRatio {
				n2 = nextRatio
			}
			archs = append(archs, Arch{s2, n2})
			ratio = nextRatio
		}
	}
	l := Layout{Archs: archs, Method: int(between(r, 1, 6))}
	ratio := int64(0)
	if len(archs) > 1 {
		ratio = archs[1].S / archs[0].S
	}
	l.Xff = genXff(r, ratio)
	if !l.Valid() {
		panic("generator produced an invalid layout: " + l.String())
	}
	return l
}

// genClock0 draws an initial clock value inside the core domain
// (maxRetention + maxStep <= now < 2^31 - maxRetention), biased towards step
// boundaries of the coarsest archive.
func genClock0(r *rand.Rand, l Layout) int64 {
	if l.MaxRet() > 1<<30 {
		// "epoch" layouts: a clock at which the retention reaches beyond the epoch
		hi := l.MaxRet() - 1
		if hi > math.MaxInt32-400*86400 {
			hi = math.MaxInt32 - 400*86400
		}
		t := between(r, 946684800+86400, hi)
		if r.IntN(3) == 0 {
			t -= t % l.Archs[0].S
		}
		return t
	}
	lo := int64(946684800) + 86400 // bubbles start at 2000-01-01
	if lo < l.MaxRet()+l.MaxStep() {
		lo = l.MaxRet() + l.MaxStep()
	}
	hi := int64(math.MaxInt32) - l.MaxRet() - 400*86400
	t := between(r, lo, hi)
	if r.IntN(25) == 0 {
		// edge clock domain: after January 2038 (unsigned 32-bit timestamps,
		// signed 32-bit durations)
		t = between(r, int64(math.MaxInt32)+l.MaxRet()+1, int64(math.MaxUint32)-3*400*86400-l.MaxRet())
	}
	switch r.IntN(4) {
	case 0:
		t -= t % l.MaxStep()
	case 1:
		t -= t % l.MaxStep()
		t += pick(r, int64(-1), 1, l.Archs[0].S, -l.Archs[0].S)
	}
	if t < lo {
		t = lo
	}
	return t
}

func genValue(r *rand.Rand, mode int) float64 {
	switch mode {
	case 0: // small integers of either sign
		return float64(between(r, -20, 100))
	case 1: // dyadic rationals of small magnitude
		return float64(between(r, -64, 256)) / 8
	case 2: // arbitrary finite
		switch r.IntN(4) {
		case 0:
			return r.NormFloat64() * 1e6
		case 1:
			return math.Float64frombits(r.Uint64()&^(0x7ff<<52) | uint64(between(r, 900, 1200))<<52)
		case 2:
			return 0.1 * float64(between(r, 1, 99))
		}
		return float64(between(r, -1000, 1000))
	}
	return 1
}

func floorMod(x, y int64) int64 {
	m := x % y
	if m < 0 {
		m += y
	}
	return m
}

func floorTo(t, s int64) int64 { return t - floorMod(t, s) }
