package engine

import (
	"bytes"
	"encoding/json"
	"fmt"
	"os"
	"strconv"
	"testing"
	"time"
)

// Generic minimiser: delta debugging over the explicit JSON trace. Arrays are
// shortened (chunks, then single elements), integers are moved towards zero,
// recorded preemptions and choices are dropped. A candidate is kept when the
// same oracle still fails. Cases that a shrink step made ill-formed are
// rejected by the simulation itself (it skips them without a verdict).

type jnode = interface{}

func decodeTree(b []byte) (jnode, error) {
	d := json.NewDecoder(bytes.NewReader(b))
	d.UseNumber()
	var v jnode
	err := d.Decode(&v)
	return v, err
}

func encodeTree(v jnode) []byte {
	b, _ := json.Marshal(v)
	return b
}

func cloneTree(v jnode) jnode {
	switch t := v.(type) {
	case map[string]jnode:
		m := make(map[string]jnode, len(t))
		for k, x := range t {
			m[k] = cloneTree(x)
		}
		return m
	case []jnode:
		a := make([]jnode, len(t))
		for i, x := range t {
			a[i] = cloneTree(x)
		}
		return a
	}
	return v
}

type jpath []interface{} // string keys and int indices

func getAt(root jnode, p jpath) jnode {
	cur := root
	for _, k := range p {
		switch kk := k.(type) {
		case string:
			cur = cur.(map[string]jnode)[kk]
		case int:
			cur = cur.([]jnode)[kk]
		}
	}
	return cur
}

func setAt(root jnode, p jpath, v jnode) jnode {
	if len(p) == 0 {
		return v
	}
	parent := getAt(root, p[:len(p)-1])
	switch kk := p[len(p)-1].(type) {
	case string:
		parent.(map[string]jnode)[kk] = v
	case int:
		parent.([]jnode)[kk] = v
	}
	return root
}

func collectPaths(v jnode, p jpath, arrays *[]jpath, nums *[]jpath) {
	switch t := v.(type) {
	case map[string]jnode:
		for _, k := range sortedKeys(t) {
			collectPaths(t[k], append(append(jpath{}, p...), k), arrays, nums)
		}
	case []jnode:
		*arrays = append(*arrays, append(jpath{}, p...))
		for i, x := range t {
			collectPaths(x, append(append(jpath{}, p...), i), arrays, nums)
		}
	case json.Number:
		*nums = append(*nums, append(jpath{}, p...))
	}
}

type minimiser struct {
	t        *testing.T
	tr       *Trace
	sim      Sim
	oracle   string
	runs     int
	maxRuns  int
	deadline time.Time
}

func (m *minimiser) fails(caseTree jnode, sched *SchedRec) bool {
	if m.runs >= m.maxRuns || time.Now().After(m.deadline) {
		return false
	}
	m.runs++
	b := encodeTree(caseTree)
	c, err := m.sim.Decode(b)
	if err != nil {
		return false
	}
	st := newStats()
	e := runOne(m.t, m.tr.Property, "quick", m.tr.Seed, m.sim, c, st, sched, false)
	return e.Viol != nil && e.Viol.Oracle == m.oracle
}

func minimiseTrace(t *testing.T, tr *Trace, sim Sim) *Trace {
	m := &minimiser{t: t, tr: tr, sim: sim, oracle: tr.Violation.Oracle, maxRuns: 3000, deadline: time.Now().Add(90 * time.Second)}
	tree, err := decodeTree(tr.Case)
	if err != nil {
		return tr
	}
	sched := tr.Sched
	if !m.fails(tree, sched) {
		return nil // does not reproduce in-process
	}
	// schedule first: fewer context switches
	if sched != nil {
		cur := *sched
		cur.Replay = true
		if m.fails(tree, &cur) {
			sched = &cur
			for changed := true; changed; {
				changed = false
				for n := len(sched.Preempts) / 2; n >= 1; n /= 2 {
					for i := 0; i+n <= len(sched.Preempts); {
						cand := *sched
						cand.Preempts = append(append([]string{}, sched.Preempts[:i]...), sched.Preempts[i+n:]...)
						if m.fails(tree, &cand) {
							sched = &cand
							changed = true
						} else {
							i += n
						}
					}
				}
				for i := range sched.Choices {
					if sched.Choices[i] != 0 {
						cand := *sched
						cand.Choices = append([]int{}, sched.Choices...)
						cand.Choices[i] = 0
						if m.fails(tree, &cand) {
							sched = &cand
							changed = true
						}
					}
				}
			}
		}
	}
	for pass := 0; pass < 6; pass++ {
		progress := false
		var arrays, nums []jpath
		collectPaths(tree, nil, &arrays, &nums)
		// longest arrays first
		for _, p := range arrays {
			arr, ok := getAtSafe(tree, p).([]jnode)
			if !ok || len(arr) == 0 {
				continue
			}
			for n := (len(arr) + 1) / 2; n >= 1; n /= 2 {
				for i := 0; ; {
					arr, _ = getAtSafe(tree, p).([]jnode)
					if i+n > len(arr) {
						break
					}
					cand := cloneTree(tree)
					na := append(append([]jnode{}, arr[:i]...), arr[i+n:]...)
					cand = setAt(cand, p, cloneTree(na))
					cand = linkLayouts(tree, cand, p)
					if m.fails(cand, sched) {
						tree = cand
						progress = true
					} else {
						i += n
					}
				}
				if n == 1 {
					break
				}
			}
		}
		arrays, nums = nil, nil
		collectPaths(tree, nil, &arrays, &nums)
		for _, p := range nums {
			num, ok := getAtSafe(tree, p).(json.Number)
			if !ok {
				continue
			}
			x, err := strconv.ParseInt(string(num), 10, 64)
			if err != nil || x == 0 {
				continue
			}
			for _, y := range shrinkInts(x) {
				cand := cloneTree(tree)
				cand = setAt(cand, p, json.Number(strconv.FormatInt(y, 10)))
				cand = linkLayouts(tree, cand, p)
				if m.fails(cand, sched) {
					tree = cand
					progress = true
					break
				}
			}
		}
		if !progress || m.runs >= m.maxRuns {
			break
		}
	}
	out := *tr
	out.Case = encodeTree(tree)
	out.Sched = sched
	// final run to record the message of the minimised case
	c, err := sim.Decode(out.Case)
	if err == nil {
		st := newStats()
		e := runOne(t, tr.Property, "quick", tr.Seed, sim, c, st, sched, false)
		if e.Viol != nil && e.Viol.Oracle == m.oracle {
			out.Violation = e.Viol
		} else {
			return tr
		}
	}
	return &out
}

func getAtSafe(root jnode, p jpath) (v jnode) {
	defer func() {
		if recover() != nil {
			v = nil
		}
	}()
	return getAt(root, p)
}

func shrinkInts(x int64) []int64 {
	var out []int64
	add := func(y int64) {
		if y != x {
			for _, z := range out {
				if z == y {
					return
				}
			}
			out = append(out, y)
		}
	}
	add(0)
	if x > 0 {
		add(1)
		add(x / 2)
		add(x - 1)
	} else {
		add(-1)
		add(x / 2)
		add(x + 1)
	}
	return out
}

// minimiseMain minimises -wsim.minimise=<file> and writes <file>.min.
func minimiseMain(t *testing.T) {
	tr, sim, _ := loadTrace(*flagMin)
	if tr.Violation == nil {
		fmt.Fprintln(os.Stderr, "trace has no violation")
		os.Exit(2)
	}
	out := minimiseTrace(t, tr, sim)
	if out == nil {
		fmt.Println("MINIMISE-NOREPRO")
		return
	}
	writeJSON(*flagMin+".min", out)
	fmt.Printf("MINIMISED %d -> %d bytes\n", len(tr.Case), len(out.Case))
}

// linkLayouts keeps equal layouts equal: when the change at path p lies inside
// a layout object (an object with an "archs" member), every other layout object
// of the case that was identical to it before the change gets the same change.
// The generators build worlds in which files, commands and the case share one
// layout, and several oracles rely on that; a shrunk case in which one copy was
// shrunk alone is outside that space and can fail for reasons of its own.
func linkLayouts(before, cand jnode, p jpath) jnode {
	var lp jpath
	for n := len(p); n >= 0; n-- {
		if m, ok := getAtSafe(before, p[:n]).(map[string]jnode); ok {
			if _, has := m["archs"]; has {
				lp = append(jpath{}, p[:n]...)
				break
			}
		}
	}
	if lp == nil {
		return cand
	}
	oldEnc := string(encodeTree(getAtSafe(before, lp)))
	repl := getAtSafe(cand, lp)
	var walk func(v jnode) jnode
	walk = func(v jnode) jnode {
		switch t := v.(type) {
		case map[string]jnode:
			if _, has := t["archs"]; has && string(encodeTree(t)) == oldEnc {
				return cloneTree(repl)
			}
			for k, x := range t {
				t[k] = walk(x)
			}
			return t
		case []jnode:
			for i, x := range t {
				t[i] = walk(x)
			}
			return t
		}
		return v
	}
	return walk(cand)
}
