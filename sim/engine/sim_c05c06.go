package engine

import (
	"bytes"
	"encoding/binary"
	"fmt"
	"math"
	"math/rand/v2"
	"os"
	"os/signal"
	"path/filepath"
	"runtime"
	"sync"
	"sync/atomic"
	"syscall"

	gw "github.com/go-graphite/go-whisper"
	wt "github.com/hnakamur/whispertool"

	"wsim/model"
)

// ---------------------------------------------------------------------------
// C05 (library part): every operation boundary of the history is an
// abandonment point.

type c05View struct {
	series [][]float64
	serr   []bool // the fetch of this archive failed (e.g. damaged base interval)
	raws   []model.Raw
}

func c05ViewOf(db *wt.Whisper, archs []model.Arch, now int64) (*c05View, error) {
	v := &c05View{}
	for id, a := range archs {
		vals, _, err := fetchWhole(db, id, a, now)
		v.serr = append(v.serr, err != nil)
		raw, err := rawOf(db, id)
		if err != nil {
			return nil, err
		}
		v.series = append(v.series, vals)
		v.raws = append(v.raws, raw)
	}
	return v, nil
}

func (v *c05View) diff(w *c05View) string {
	for a := range v.series {
		if v.serr[a] != w.serr[a] {
			return fmt.Sprintf("archive %d: fetch fails on one handle only", a)
		}
		if i, ok := sameSeries(v.series[a], w.series[a]); !ok {
			if i < 0 {
				return fmt.Sprintf("archive %d: %d vs %d values", a, len(v.series[a]), len(w.series[a]))
			}
			return fmt.Sprintf("archive %d value %d: %v vs %v", a, i, v.series[a][i], w.series[a][i])
		}
		if i, ok := rawEqual(v.raws[a], w.raws[a]); !ok {
			return fmt.Sprintf("archive %d raw slot %d: (%d,%v) vs (%d,%v)", a, i, v.raws[a][i].I, v.raws[a][i].V, w.raws[a][i].I, w.raws[a][i].V)
		}
	}
	return ""
}

// c05Apply performs one write operation on db at the virtual clock now.
func c05Apply(db *wt.Whisper, op LibOp, now int64) (error, string) {
	switch op.Op {
	case "upd":
		return callSafely(func() error {
			return db.UpdatePointForArchive(op.ID, wt.Timestamp(now-op.Pts[0].Age), wt.Value(op.Pts[0].V), wt.Timestamp(now))
		})
	case "many":
		wpts := make([]wt.Point, len(op.Pts))
		for k, p := range op.Pts {
			wpts[k] = wt.Point{Time: wt.Timestamp(now - p.Age), Value: wt.Value(p.V)}
		}
		return callSafely(func() error { return db.UpdatePointsForArchive(wpts, op.ID, wt.Timestamp(now)) })
	}
	return nil, ""
}

func runC05(e *Env, c *LibCase) {
	if c.Syncer > 0 {
		runC05Syncer(e, c)
		return
	}
	archs := toModelArchs(c.Layout)
	path := filepath.Join(e.Dir, "main.wsp")
	now := c.Clock0
	db, err := c.Layout.create(path)
	if err != nil {
		e.Violate("C05.create", "Create failed: %v", err)
		return
	}
	defer func() { db.Close() }()
	// what the file must hold after abandonment at each boundary
	durable := readFile(path)
	fileLen := len(durable)
	want := c.Layout
	expLen := 16 + 12*len(want.Archs)
	for _, a := range want.Archs {
		expLen += 12 * int(a.N)
	}
	if fileLen != expLen {
		e.Violate("C05.length", "file length after Create is %d, the layout needs %d", fileLen, expLen)
		return
	}
	var hdr []byte
	var view *c05View
	durableAt := make([][]byte, len(c.Ops))
	viewAt := make([]*c05View, len(c.Ops))
	nowAt := make([]int64, len(c.Ops))
	dirtyPages := map[int64]bool{}
	synced := false
	for i, op := range c.Ops {
		e.Op(i)
		switch op.Op {
		case "adv":
			now += op.D
			e.Stats.SimSeconds += op.D
			if now >= math.MaxUint32-400*86400 {
				e.Skip("clock-out-of-domain")
				return
			}
		case "upd", "many":
			_, pan := c05Apply(db, op, now)
			if pan != "" {
				e.Skip("foreign-panic-in-update")
				return
			}
			for _, p := range op.Pts {
				_ = p
			}
			dirtyPages[int64(i)] = true
		case "sync", "reopen":
			if op.FailAt > 0 && op.Op == "sync" {
				// F10: writes beyond a seeded offset fail while this Sync runs
				serr := withWriteLimit(op.FailAt-1, func() error { return db.Sync() })
				e.Fault("F10.write-failure-during-sync")
				if serr != nil {
					// a loud failure claims nothing; whatever reached the disk is the
					// new baseline, the recorded view is void
					e.Probe("sync-reports-the-failed-write")
					durable = readFile(path)
					view = nil
					break
				}
				live, lerr := c05ViewOf(db, archs, now)
				obs, oerr := wt.Open(path, wt.WithoutFlock())
				if lerr != nil || oerr != nil {
					e.Violate("C05.sync-success-after-failed-write", "Sync reported success although writes at offsets >= %d failed (file of %d bytes), and the file cannot be read back: %v %v", op.FailAt-1, fileLen, lerr, oerr)
					return
				}
				ov, verr := c05ViewOf(obs, archs, now)
				obs.Close()
				if verr != nil || live.diff(ov) != "" {
					d := ""
					if verr == nil {
						d = live.diff(ov)
					}
					e.Violate("C05.sync-success-after-failed-write", "Sync reported success although writes at offsets >= %d failed (file of %d bytes): another handle does not see the live handle's state: %v %s", op.FailAt-1, fileLen, verr, d)
					return
				}
				e.Probe("failed-writes-did-not-matter-to-this-sync")
			}
			if err := db.Sync(); err != nil {
				e.Violate("C05.sync", "Sync failed: %v", err)
				return
			}
			b := readFile(path)
			if len(b) != fileLen {
				e.Violate("C05.length", "file length changed from %d to %d at Sync", fileLen, len(b))
				return
			}
			hl := 16 + 12*len(archs)
			if hdr == nil {
				hdr = append([]byte(nil), b[:hl]...)
			} else if !bytes.Equal(hdr, b[:hl]) {
				e.Violate("C05.header", "header bytes changed at a later Sync")
				return
			}
			// (ii) an observer handle sees what the live handle sees
			live, err := c05ViewOf(db, archs, now)
			if err != nil {
				e.Violate("C05.read", "live handle read failed: %v", err)
				return
			}
			obs, err := wt.Open(path, wt.WithoutFlock())
			if err != nil {
				e.Violate("C05.synced-visible", "observer Open after Sync failed: %v", err)
				return
			}
			ov, err := c05ViewOf(obs, archs, now)
			obs.Close()
			if err != nil {
				e.Violate("C05.synced-visible", "observer read after Sync failed: %v", err)
				return
			}
			if d := live.diff(ov); d != "" {
				e.Violate("C05.synced-visible", "after Sync (op %d) another handle disagrees with the live handle: %s", i, d)
				return
			}
			if !obs.Header().ArchiveInfoList().Equal(db.Header().ArchiveInfoList()) {
				e.Violate("C05.synced-visible", "observer sees a different archive list")
				return
			}
			durable = b
			view = live
			if synced && len(dirtyPages) > 0 {
				e.Probe("sync-with-pending-writes")
			}
			synced = true
			dirtyPages = map[int64]bool{}
			if op.Op == "reopen" {
				db.Close()
				db, err = wt.Open(path)
				if err != nil {
					e.Violate("C05.reopen", "Open after Sync+Close failed: %v", err)
					return
				}
				lv, err := c05ViewOf(db, archs, now)
				if err != nil || live.diff(lv) != "" {
					e.Violate("C05.synced-visible", "after Sync+Close+Open the new handle disagrees with the old one: %v %s", err, live.diff(lv))
					return
				}
			}
		case "abandon":
			// covered by the per-boundary forks below
		case "corrupt":
			// F5: the handle is synced and closed, the base interval of a coarser
			// archive is damaged on disk, and a fresh handle is opened (it has
			// cached nothing but the header page, so it sees the damaged bytes
			// like everybody else). A later update then fails half-way, after
			// having written the finer archive.
			off, ok := c05CorruptOffset(c.Layout, int(op.D))
			if !ok || !synced {
				break
			}
			if err := db.Sync(); err != nil {
				e.Violate("C05.sync", "Sync failed: %v", err)
				return
			}
			db.Close()
			c05Corrupt(path, off)
			durable = readFile(path)
			var oerr error
			db, oerr = wt.Open(path)
			if oerr != nil {
				e.Skip("open-after-damage-failed")
				return
			}
			view = nil // the recorded view is void: the bytes were changed from outside
			e.Fault("F5.base-interval-damaged-before-open")
		}
		// (i) the file's bytes change only during Sync
		b := readFile(path)
		if !bytes.Equal(b, durable) {
			off := firstDiff(b, durable)
			e.Violate("C05.only-sync-writes", "after op %d (%s) and before any further Sync the file differs from its last synced bytes at offset %d (length %d vs %d)",
				i, op.Op, off, len(b), len(durable))
			return
		}
		durableAt[i] = durable
		viewAt[i] = view
		nowAt[i] = now
	}
	// multi-page probes
	if fileLen > 2*4096 {
		e.Probe("file-spans-3+-pages")
	}
	off := 16 + 12*len(archs)
	for _, a := range archs {
		for k := int64(0); k < a.N; k++ {
			o := int64(off) + 12*k
			if o/4096 != (o+11)/4096 {
				e.Probe("layout-has-slot-straddling-a-page")
				k = a.N
			}
		}
		off += 12 * int(a.N)
	}
	// (iii) forks: replay the history up to each boundary on a fresh file,
	// drop the handle with Close and without Sync, and re-read.
	for k := range c.Ops {
		if e.Failed() {
			return
		}
		if c.Ops[k].Op == "adv" && k+1 < len(c.Ops) {
			continue
		}
		fp := filepath.Join(e.Dir, fmt.Sprintf("fork%d.wsp", k))
		fdb, err := c.Layout.create(fp)
		if err != nil {
			e.Violate("C05.create", "Create failed: %v", err)
			return
		}
		fnow := c.Clock0
		fsynced := false
		for j := 0; j <= k; j++ {
			op := c.Ops[j]
			switch op.Op {
			case "adv":
				fnow += op.D
			case "upd", "many":
				c05Apply(fdb, op, fnow)
			case "corrupt":
				if off, ok := c05CorruptOffset(c.Layout, int(op.D)); ok && fsynced {
					fdb.Sync()
					fdb.Close()
					c05Corrupt(fp, off)
					fdb, err = wt.Open(fp)
					if err != nil {
						e.Skip("open-after-damage-failed")
						return
					}
				}
			case "sync":
				if op.FailAt > 0 && withWriteLimit(op.FailAt-1, func() error { return fdb.Sync() }) != nil {
					// as in the main history: a Sync that reported the failed
					// write is not followed by another one
					fsynced = true
					continue
				}
				fdb.Sync()
				fsynced = true
			case "reopen":
				fsynced = true
				fdb.Sync()
				fdb.Close()
				fdb, err = wt.Open(fp)
				if err != nil {
					e.Violate("C05.reopen", "Open failed in fork: %v", err)
					return
				}
			}
		}
		how := "handle closed without Sync"
		if k%5 == 2 || k == len(c.Ops)-1 {
			// the handle is dropped without Close and garbage-collected
			how = "handle dropped without Close or Sync and garbage-collected"
			fdb = nil
			collectGarbage()
			e.Fault("F2.handle-dropped-and-collected")
		} else if err := fdb.Close(); err != nil {
			e.Violate("C05.close", "Close failed: %v", err)
			return
		}
		e.Fault("F2.abandon-after-op")
		b := readFile(fp)
		if !bytes.Equal(b, durableAt[k]) {
			e.Violate("C05.abandon", "history replayed up to op %d (%s), %s: the file differs from the last synced state at offset %d",
				k, c.Ops[k].Op, how, firstDiff(b, durableAt[k]))
			return
		}
		if viewAt[k] != nil {
			ndb, err := wt.Open(fp)
			if err != nil {
				e.Violate("C05.abandon", "Open after abandonment at op %d failed: %v", k, err)
				return
			}
			nv, err := c05ViewOf(ndb, archs, nowAt[k])
			ndb.Close()
			// the recorded view was taken at the clock of the last sync; compare
			// raw slots (clock independent)
			if err != nil {
				e.Violate("C05.abandon", "read after abandonment failed: %v", err)
				return
			}
			for a := range archs {
				if i, ok := rawEqual(nv.raws[a], viewAt[k].raws[a]); !ok {
					e.Violate("C05.abandon", "abandoned after op %d: archive %d slot %d reads (%d,%v), at the last Sync the live handle held (%d,%v)",
						k, a, i, nv.raws[a][i].I, nv.raws[a][i].V, viewAt[k].raws[a][i].I, viewAt[k].raws[a][i].V)
					return
				}
			}
			e.Probe("abandon-after-a-sync-with-later-writes")
		}
		if k%4 == 1 && len(durableAt[k]) >= 16 && binary.BigEndian.Uint32(durableAt[k][12:]) != 0 {
			// the path is created again over the synced file (same archive list,
			// another method and xFilesFactor, open flags without O_EXCL) and that
			// handle is dropped before its first Sync: nothing was synced, the
			// file still holds the last synced state
			l2 := c.Layout
			l2.Method = l2.Method%6 + 1
			l2.Xff = 1 - l2.Xff
			var rdb *wt.Whisper
			_, pan := callSafely(func() error {
				var err error
				rdb, err = l2.create(fp, wt.WithOpenFileFlag(os.O_RDWR|os.O_CREATE))
				return err
			})
			if pan == "" && rdb != nil {
				rdb.Close()
				if b := readFile(fp); !bytes.Equal(b, durableAt[k]) {
					e.Violate("C05.abandon", "synced file created again (Create with O_RDWR|O_CREATE, same archives, method %s) and that handle closed without Sync: the file differs from the last synced state at offset %d",
						methodName(l2.Method), firstDiff(b, durableAt[k]))
					return
				}
				e.Probe("created-again-and-abandoned-before-the-first-sync")
			}
		}
		os.Remove(fp)
		if k%6 == 3 {
			// calls in the wrong order: Close, then Sync. A Sync that reports
			// success claims that the file holds the handle's state, i.e. what a
			// Sync before the Close would have left
			sdb, ok := c05Replay(e, c, filepath.Join(e.Dir, fmt.Sprintf("forkA%d.wsp", k)), k)
			tdb, ok2 := c05Replay(e, c, filepath.Join(e.Dir, fmt.Sprintf("forkB%d.wsp", k)), k)
			if !ok || !ok2 {
				return
			}
			tdb.Sync()
			tdb.Close()
			sdb.Close()
			serr, pan := callSafely(func() error { return sdb.Sync() })
			a, b := readFile(filepath.Join(e.Dir, fmt.Sprintf("forkA%d.wsp", k))), readFile(filepath.Join(e.Dir, fmt.Sprintf("forkB%d.wsp", k)))
			os.Remove(filepath.Join(e.Dir, fmt.Sprintf("forkA%d.wsp", k)))
			os.Remove(filepath.Join(e.Dir, fmt.Sprintf("forkB%d.wsp", k)))
			switch {
			case pan != "":
				e.Note("sync-after-close-panics")
			case serr == nil && !bytes.Equal(a, b):
				e.Violate("C05.synced-visible", "history replayed up to op %d, then Close, then Sync: Sync reported success but the file differs at offset %d from the file of the same history synced before its Close",
					k, firstDiff(a, b))
				return
			case serr != nil && !bytes.Equal(a, durableAt[k]):
				e.Violate("C05.abandon", "history replayed up to op %d, then Close, then a Sync that failed (%v): the file differs from the last synced state at offset %d", k, serr, firstDiff(a, durableAt[k]))
				return
			default:
				e.Probe("sync-after-close-refused")
			}
		}
	}
}

// c05Replay replays the history up to op k on a fresh file and returns the
// live handle.
func c05Replay(e *Env, c *LibCase, fp string, k int) (*wt.Whisper, bool) {
	fdb, err := c.Layout.create(fp)
	if err != nil {
		e.Violate("C05.create", "Create failed: %v", err)
		return nil, false
	}
	fnow := c.Clock0
	fsynced := false
	for j := 0; j <= k; j++ {
		op := c.Ops[j]
		switch op.Op {
		case "adv":
			fnow += op.D
		case "upd", "many":
			c05Apply(fdb, op, fnow)
		case "corrupt":
			if off, ok := c05CorruptOffset(c.Layout, int(op.D)); ok && fsynced {
				fdb.Sync()
				fdb.Close()
				c05Corrupt(fp, off)
				fdb, err = wt.Open(fp)
				if err != nil {
					e.Skip("open-after-damage-failed")
					return nil, false
				}
			}
		case "sync":
			if op.FailAt > 0 && withWriteLimit(op.FailAt-1, func() error { return fdb.Sync() }) != nil {
				fsynced = true
				continue
			}
			fdb.Sync()
			fsynced = true
		case "reopen":
			fsynced = true
			fdb.Sync()
			fdb.Close()
			fdb, err = wt.Open(fp)
			if err != nil {
				e.Violate("C05.reopen", "Open failed in fork: %v", err)
				return nil, false
			}
		}
	}
	return fdb, true
}

func firstDiff(a, b []byte) int {
	n := len(a)
	if len(b) < n {
		n = len(b)
	}
	for i := 0; i < n; i++ {
		if a[i] != b[i] {
			return i
		}
	}
	return n
}

// ---------------------------------------------------------------------------
// C06: format and interoperability with go-whisper

type c06State struct {
	pathB string
	gdb   *gw.Whisper
}

func gwMethod(m int) gw.AggregationMethod {
	return [...]gw.AggregationMethod{0, gw.Average, gw.Sum, gw.Last, gw.Max, gw.Min, gw.First}[m]
}

func (lr *libRun) c06Init() {
	st := &c06State{pathB: filepath.Join(lr.e.Dir, "ref.wsp")}
	var rets gw.Retentions
	for _, a := range lr.c.Layout.Archs {
		r := gw.NewRetention(int(a.S), int(a.N))
		rets = append(rets, &r)
	}
	gw.Now = timeNow
	g, err := gw.CreateWithOptions(st.pathB, rets, gwMethod(lr.c.Layout.Method), float32(lr.c.Layout.Xff), &gw.Options{})
	if err != nil {
		lr.e.Skip("go-whisper-create-failed")
		return
	}
	st.gdb = g
	lr.c06st = st
}

func (lr *libRun) c06Close() {
	if st := lr.c06st; st != nil {
		if st.gdb != nil {
			st.gdb.Close()
		}
		lr.c06st = nil
	}
}

// c06Write mirrors the write onto the reference-written file.
func (lr *libRun) c06Write(op LibOp, pts []model.Pt, now int64, callErr error) {
	st := lr.c06st
	if st == nil || st.gdb == nil {
		return
	}
	for _, p := range pts {
		if p.T > now {
			return // future timestamps are not mirrored onto the reference-written file
		}
	}
	switch {
	case op.Op == "upd" && op.ID == -1:
		st.gdb.Update(pts[0].V, int(pts[0].T))
	case op.Op == "many":
		gp := make([]*gw.TimeSeriesPoint, len(pts))
		for i, p := range pts {
			gp[i] = &gw.TimeSeriesPoint{Time: int(p.T), Value: p.V}
		}
		if op.ID == -1 {
			st.gdb.UpdateMany(gp)
		} else {
			st.gdb.UpdateManyForArchive(gp, int(lr.archs[op.ID].R()))
		}
	}
}

// c06AtSync: whispertool-written bytes b (already parsed into f) are read by
// go-whisper and by whispertool.
func (lr *libRun) c06AtSync(b []byte, f *model.File) {
	e := lr.e
	l := lr.c.Layout
	// (i) header fields, big-endian, in order
	if int(f.Method) != l.Method || f.XffBits != math.Float32bits(float32(l.Xff)) || int(f.Count) != len(l.Archs) {
		e.Violate("C06.format", "header holds method %d xff bits %#x count %d, created with %d %#x %d",
			f.Method, f.XffBits, f.Count, l.Method, math.Float32bits(float32(l.Xff)), len(l.Archs))
		return
	}
	for k, a := range l.Archs {
		if f.Archs[k].S != a.S || f.Archs[k].N != a.N {
			e.Violate("C06.format", "archive %d stored as %ds x %d, created as %ds x %d", k, f.Archs[k].S, f.Archs[k].N, a.S, a.N)
			return
		}
	}
	e.Probe("synced-file-parsed-by-independent-parser")
	c06Cross(lr.e, lr.archs, lr.wr, lr.path, "whispertool-written", lr.c.Layout.Method)
}

func (lr *libRun) c06Reads() {
	st := lr.c06st
	if st == nil || st.gdb == nil || lr.db == nil {
		return
	}
	// reference-written bytes read by both
	if b := readFile(st.pathB); b != nil {
		if _, err := model.ParseFile(b); err != nil {
			lr.e.Note("go-whisper-file-not-parsed:" + trunc(err.Error(), 40))
		}
	}
	c06Cross(lr.e, lr.archs, lr.wr, st.pathB, "reference-written", 0)
}

// c06Cross reads path with go-whisper and with whispertool and compares.
func c06Cross(e *Env, archs []model.Arch, wr *rand.Rand, path, who string, wantMethod int) {
	lr := struct {
		archs []model.Arch
		wr    *rand.Rand
	}{archs, wr}
	now := Now()
	gw.Now = timeNow
	wt.Now = timeNow
	g, err := gw.Open(path)
	if err != nil {
		if who == "whispertool-written" {
			e.Violate("C06.interop-open", "go-whisper cannot open the %s file: %v", who, err)
		} else {
			e.Skip("go-whisper-open-failed")
		}
		return
	}
	defer g.Close()
	w, err := wt.Open(path, wt.WithoutFlock())
	if err != nil {
		e.Violate("C06.interop-open", "whispertool cannot open the %s file: %v", who, err)
		return
	}
	defer w.Close()
	// metadata
	rets := g.Retentions()
	wl := w.ArchiveInfoList()
	if len(rets) != len(wl) {
		e.Violate("C06.metadata", "%s file: go-whisper sees %d archives, whispertool %d", who, len(rets), len(wl))
		return
	}
	for i := range rets {
		if rets[i].SecondsPerPoint() != int(wl[i].SecondsPerPoint()) || rets[i].NumberOfPoints() != int(wl[i].NumberOfPoints()) {
			e.Violate("C06.metadata", "%s file archive %d: go-whisper %d x %d, whispertool %d x %d", who, i,
				rets[i].SecondsPerPoint(), rets[i].NumberOfPoints(), wl[i].SecondsPerPoint(), wl[i].NumberOfPoints())
			return
		}
	}
	if int(g.AggregationMethod()) != int(w.AggregationMethod()) || g.XFilesFactor() != w.XFilesFactor() || g.MaxRetention() != int(w.MaxRetention()) {
		e.Violate("C06.metadata", "%s file: go-whisper (%v,%v,%v) vs whispertool (%v,%v,%v)", who,
			g.AggregationMethod(), g.XFilesFactor(), g.MaxRetention(), w.AggregationMethod(), w.XFilesFactor(), w.MaxRetention())
		return
	}
	if wantMethod != 0 && int(g.AggregationMethod()) != wantMethod {
		e.Violate("C06.metadata", "%s file created with aggregation method %s (%d in the Whisper format): the reference reader sees method %d", who, methodName(wantMethod), wantMethod, int(g.AggregationMethod()))
		return
	}
	parsed, perr := model.ParseFile(readFile(path))
	// series: windows whose from selects each archive in turn
	for id, a := range lr.archs {
		for k := 0; k < 3; k++ {
			lo := int64(0)
			if id > 0 {
				lo = lr.archs[id-1].R() + 1
			}
			hi := a.R()
			if hi < lo {
				continue
			}
			fromAge := lo + lr.wr.Int64N(hi-lo+1)
			from := now - fromAge
			until := from + lr.wr.Int64N(fromAge+1)
			if k == 0 {
				from, until = now-a.R(), now
			}
			if k == 2 && id == len(lr.archs)-1 {
				// a window reaching back to the seventies selects the coarsest archive
				from, until = lr.wr.Int64N(1000000), now
			}
			if from < 0 {
				from = 0 // the retention reaches back beyond the epoch
			}
			if until < from {
				until = from
			}
			if model.Floor(from, a.S) == model.Floor(until, a.S) {
				e.Note("c06-degenerate-window-skipped")
				continue
			}
			gts, gerr := g.Fetch(int(from), int(until))
			var wts *wt.TimeSeries
			werr, pan := callSafely(func() error {
				var err error
				wts, err = w.Fetch(wt.Timestamp(from), wt.Timestamp(until))
				return err
			})
			if pan != "" {
				e.Violate("C06.interop-read", "whispertool Fetch panicked on the %s file: %s", who, pan)
				return
			}
			if gerr == nil && gts != nil && werr != nil {
				e.Violate("C06.interop-read", "%s file, window (now-%d, now-%d]: the reference reads a series (step %d, %d values), whispertool fails: %v",
					who, now-from, now-until, gts.Step(), len(gts.Values()), werr)
				return
			}
			if (gerr != nil) != (werr != nil) || (gts == nil) != (wts == nil) {
				e.Note("c06-outcome-class-differs")
				continue
			}
			if gts == nil || gerr != nil {
				continue
			}
			same := gts.FromTime() == int(wts.FromTime()) && gts.UntilTime() == int(wts.UntilTime()) && gts.Step() == int(wts.Step()) && len(gts.Values()) == len(wts.Values())
			if same {
				for i, v := range gts.Values() {
					if !model.SameValue(v, float64(wts.Values()[i])) {
						same = false
						break
					}
				}
			}
			e.Probe("cross-read/" + who)
			if same {
				continue
			}
			// a violation only if whispertool also disagrees with the
			// spec-level reading of the bytes
			if perr == nil {
				sh := model.Shape(lr.archs, -1, from, until, now)
				ok := sh.Kind == model.ShapeSeries && sh.From == int64(wts.FromTime()) && sh.Until == int64(wts.UntilTime()) && sh.Step == int64(wts.Step()) && sh.Count == int64(len(wts.Values()))
				if ok {
					for i, v := range wts.Values() {
						if !model.SameValue(float64(v), model.Project(lr.archs[sh.Archive], parsed.Archives[sh.Archive], sh.From+int64(i)*sh.Step)) {
							ok = false
							break
						}
					}
				}
				if ok {
					e.Note("c06-go-whisper-only-anomaly")
					continue
				}
			} else if who != "whispertool-written" {
				// the reference-written bytes do not satisfy the format rules of
				// the independent parser: nothing can arbitrate this disagreement
				e.Note("c06-reference-file-not-arbitrable")
				continue
			}
			e.Violate("C06.interop-read", "%s file, window (now-%d, now-%d]: go-whisper reads from=%d until=%d step=%d n=%d, whispertool reads from=%d until=%d step=%d n=%d (or values differ)",
				who, now-from, now-until, gts.FromTime(), gts.UntilTime(), gts.Step(), len(gts.Values()),
				wts.FromTime(), wts.UntilTime(), wts.Step(), len(wts.Values()))
			return
		}
	}
}

// checkC06Cli: files produced by the CLI (generate, copy and sum-copy into an
// absent destination) are classic Whisper files as well.
func checkC06Cli(e *Env, r *cliRunner, c *CliCase) {
	res := r.run1(c.Cmd, "c06")
	if foreignPanic(e, res) {
		return
	}
	if res.err != nil {
		e.Skip("cli-command-failed")
		return
	}
	var dp string
	switch c.Cmd.Kind {
	case "generate":
		dp = filepath.Join(e.Dir, "dst", c.Cmd.Dest)
	case "copy":
		d := c.Cmd.Dest
		if d == "" {
			d = c.Cmd.Src
		}
		dp = filepath.Join(e.Dir, "dst", d)
	case "sum-copy":
		items, _ := sumWorld(e, c)
		if len(items) == 0 {
			return
		}
		dp = filepath.Join(e.Dir, "dst", items[0], c.Cmd.Dest)
	default:
		return
	}
	b := readFile(dp)
	if b == nil {
		e.Skip("no-destination")
		return
	}
	f, err := model.ParseFile(b)
	if err != nil {
		e.Violate("C06.format", "file written by %s is not a classic Whisper file: %v", c.Cmd.Kind, err)
		return
	}
	l := c.Cmd.Create
	if int(f.Method) != l.Method || f.XffBits != math.Float32bits(float32(l.Xff)) || int(f.Count) != len(l.Archs) {
		e.Violate("C06.format", "file written by %s holds method %d xff bits %#x count %d, requested %d %#x %d", c.Cmd.Kind, f.Method, f.XffBits, f.Count, l.Method, math.Float32bits(float32(l.Xff)), len(l.Archs))
		return
	}
	e.Probe("cli-written-file-parsed/" + c.Cmd.Kind)
	c06Cross(e, toModelArchs(l), newRng(c.SchedSeed|1), dp, "whispertool-written", l.Method)
}

// c05CorruptOffset returns the file offset of the base interval of archive
// 1+which%(n-1) if that offset lies beyond the first page (the header page is
// cached at Open, later pages are read lazily).
func c05CorruptOffset(l Layout, which int) (int64, bool) {
	if len(l.Archs) < 2 {
		return 0, false
	}
	if which < 0 {
		which = -which
	}
	a := 1 + which%(len(l.Archs)-1)
	off := int64(16 + 12*len(l.Archs))
	for i := 0; i < a; i++ {
		off += 12 * l.Archs[i].N
	}
	if off < 4096 {
		return 0, false
	}
	return off, true
}

// c05Corrupt writes a base interval that is not a multiple of any step > 1.
func c05Corrupt(path string, off int64) {
	f, err := os.OpenFile(path, os.O_WRONLY, 0)
	if err != nil {
		return
	}
	f.WriteAt([]byte{0x3b, 0x9a, 0xca, 0x07}, off) // 1000000007
	f.Close()
}

var gcSentinel atomic.Int64

// collectGarbage runs the collector and waits (bounded) until a finalizer
// registered just before has run, so that finalizers of objects dropped
// earlier have had their turn as well.
func collectGarbage() {
	for round := 0; round < 2; round++ {
		want := gcSentinel.Load() + 1
		s := new([64]byte)
		runtime.SetFinalizer(s, func(*[64]byte) { gcSentinel.Add(1) })
		s = nil
		for i := 0; i < 200 && gcSentinel.Load() < want; i++ {
			runtime.GC()
			runtime.Gosched()
		}
	}
}

// withWriteLimit runs f while the process may not write at file offsets >=
// limit (RLIMIT_FSIZE: the write fails with EFBIG, a write crossing the
// offset is cut short): the simulated disk is full beyond that offset.
func withWriteLimit(limit int64, f func() error) error {
	sigOnce.Do(func() { signal.Ignore(syscall.SIGXFSZ) })
	var old syscall.Rlimit
	if err := syscall.Getrlimit(syscall.RLIMIT_FSIZE, &old); err != nil {
		return f()
	}
	nl := old
	nl.Cur = uint64(limit)
	if err := syscall.Setrlimit(syscall.RLIMIT_FSIZE, &nl); err != nil {
		return f()
	}
	defer syscall.Setrlimit(syscall.RLIMIT_FSIZE, &old)
	return f()
}

var sigOnce sync.Once

// runC05Syncer: the history runs in one goroutine, each write followed by a
// Sync, while a second goroutine (a periodic syncer) calls Sync on the same
// handle; the scheduler preempts both at statements. Whenever the writer's Sync
// returns successfully, another handle must see the writer's state.
func runC05Syncer(e *Env, c *LibCase) {
	if c.Syncer > 50 {
		e.Skip("invalid-case")
		return
	}
	archs := toModelArchs(c.Layout)
	path := filepath.Join(e.Dir, "main.wsp")
	db, err := c.Layout.create(path)
	if err != nil {
		e.Violate("C05.create", "Create failed: %v", err)
		return
	}
	defer db.Close()
	if err := db.Sync(); err != nil {
		e.Violate("C05.sync", "Sync failed: %v", err)
		return
	}
	s := NewSched(c.WSeed, nSites)
	s.PreemptP = []float64{0.02, 0.1, 0.3}[c.WSeed%3]
	if e.SchedRec != nil && e.SchedRec.Replay {
		s.SetReplay(e.SchedRec.Choices, e.SchedRec.Preempts)
	}
	var mu sync.Mutex
	viol := func(oracle, format string, args ...interface{}) {
		mu.Lock()
		e.Violate(oracle, format, args...)
		mu.Unlock()
		s.Abort("violation")
	}
	s.Go("W", func() {
		now := c.Clock0
		for i, op := range c.Ops {
			switch op.Op {
			case "adv":
				now += op.D
				if now >= math.MaxUint32-400*86400 {
					return
				}
			case "upd", "many":
				if _, pan := c05Apply(db, op, now); pan != "" {
					return
				}
				if err := db.Sync(); err != nil {
					viol("C05.sync", "Sync failed: %v", err)
					return
				}
				live, lerr := c05ViewOf(db, archs, now)
				obs, oerr := wt.Open(path, wt.WithoutFlock())
				if lerr != nil || oerr != nil {
					viol("C05.synced-visible", "after op %d and a successful Sync the file cannot be read: %v %v", i, lerr, oerr)
					return
				}
				ov, verr := c05ViewOf(obs, archs, now)
				obs.Close()
				if verr != nil || live.diff(ov) != "" {
					d := ""
					if verr == nil {
						d = live.diff(ov)
					}
					viol("C05.synced-visible", "op %d, then a Sync that returned successfully while a second goroutine was calling Sync on the same handle: another handle disagrees with the live handle: %v %s", i, verr, d)
					return
				}
				e.Probe("sync-returned-while-another-goroutine-syncs-the-same-handle")
			}
		}
	})
	s.Go("S", func() {
		for k := 0; k < c.Syncer; k++ {
			if err := db.Sync(); err != nil {
				viol("C05.sync", "Sync (second goroutine) failed: %v", err)
				return
			}
		}
	})
	s.Install()
	s.Run()
	Uninstall()
	e.OutSched = &SchedRec{Seed: 0, PreemptP: s.PreemptP, Choices: s.Choices, Preempts: s.Preempts}
	e.Stats.Yields += int64(s.Yields)
	e.Stats.Decisions += int64(s.Decisions)
	if s.Switches > 1 {
		e.Stats.Interleave[s.Signature()] = true
	}
	if len(s.Preempts) > 0 {
		e.Fault("F9.preemption")
	}
	if len(s.Panics) > 0 && !e.Failed() {
		e.Violate("C05.sync", "panic while two goroutines use one handle: %s", s.Panics[0])
	}
}
