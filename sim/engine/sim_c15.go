package engine

import (
	"encoding/binary"
	"encoding/json"
	"fmt"
	"math"
	"math/rand/v2"
	"net/http"
	"os"
	"path/filepath"
	"runtime"

	wt "github.com/hnakamur/whispertool"
)

// C15: corrupt or hostile bytes. Corruption is injected into a running world:
// (a) a valid file produced by a fill history is damaged (truncation, bit
// flips, header fields set to boundary values, extension) and then opened and
// used through the library and the CLI; (b) the response of a remote read is
// damaged on the wire with structure-aware mutations and decoded by the real
// client.

type Damage struct {
	Kind  string   `json:"kind"` // truncate flip field extend zero
	At    int64    `json:"at"`   // length / byte offset / field index
	Bit   int      `json:"bit,omitempty"`
	Val   uint64   `json:"val,omitempty"`
	Wide  bool     `json:"wide,omitempty"`  // 64-bit field (wire point-list count)
	Also  []Damage `json:"also,omitempty"`  // further fields set together with this one
	Forge []int64  `json:"forge,omitempty"` // kind "forge": step0, points0, step1, points1, ...: the whole file is replaced by a well-formed looking file with these archives
}

func (d Damage) String() string {
	switch d.Kind {
	case "truncate":
		return fmt.Sprintf("truncated to %d bytes", d.At)
	case "flip":
		return fmt.Sprintf("bit %d of byte %d flipped", d.Bit, d.At)
	case "field":
		extra := ""
		for _, a := range d.Also {
			extra += fmt.Sprintf(" and the one at offset %d to %#x", a.At, a.Val)
		}
		if d.Wide {
			return fmt.Sprintf("64-bit field at offset %d set to %#x%s", d.At, d.Val, extra)
		}
		return fmt.Sprintf("32-bit field at offset %d set to %#x%s", d.At, d.Val, extra)
	case "extend":
		return fmt.Sprintf("extended by %d bytes", d.At)
	case "lie-length":
		return fmt.Sprintf("Content-Length announced as %d", d.Val)
	case "zero":
		return fmt.Sprintf("bytes from offset %d zeroed", d.At)
	case "other-question":
		return "a well-formed answer to another question (every archive, although one was asked for)"
	case "forge":
		return fmt.Sprintf("replaced by a forged file with archives (step, points) %v, contiguous offsets and an aligned base interval in each", d.Forge)
	}
	return d.Kind
}

type C15Case struct {
	Mode      string  `json:"mode"` // stored, live, wire
	Layout    Layout  `json:"layout"`
	Clock0    int64   `json:"clock0"`
	File      WFile   `json:"file"`
	DSeed     uint64  `json:"dseed"`
	Only      *Damage `json:"only,omitempty"` // when set, only this damage is applied
	Cmd       Cmd     `json:"cmd,omitempty"`  // wire mode
	SchedSeed uint64  `json:"sched_seed"`
}

type c15Sim struct{}

func (c15Sim) Name() string { return "c15" }

func (c15Sim) Decode(raw json.RawMessage) (interface{}, error) {
	var c C15Case
	if err := json.Unmarshal(raw, &c); err != nil {
		return nil, err
	}
	return &c, nil
}

func (c15Sim) Gen(prop, tier string, r *rand.Rand) interface{} {
	l := genLayout(r, pick(r, "tiny", "small", "small", "edge", "four"))
	if r.IntN(12) == 0 {
		l = genLayout(r, pick(r, "page", "page", "page", "big")) // files of several (many) pages
	}
	c := &C15Case{Layout: l, Clock0: genClock0(r, l), DSeed: r.Uint64(), SchedSeed: r.Uint64()}
	c.File = WFile{Base: "src", Rel: "v/file.wsp", Layout: l, Fills: genFills(r, l, 0, 0.9)}
	switch r.IntN(10) {
	case 0, 1, 2, 3, 4:
		c.Mode = "stored"
	case 5, 6:
		c.Mode = "live"
	default:
		c.Mode = "wire"
		c.Cmd = Cmd{SrcRemote: true, Archive: genArchiveSel(r, len(l.Archs))}
		switch r.IntN(5) {
		case 4:
			// the destination of sum-diff is read through the server
			c.Cmd = Cmd{Kind: "sum-diff", DstRemote: true, Item: "v", Src: "*.wsp", Dest: "file.wsp", Archive: genArchiveSel(r, len(l.Archs))}
		case 0:
			c.Cmd.Kind, c.Cmd.Src = "view", "v/file.wsp"
		case 1:
			c.Cmd.Kind, c.Cmd.Src = "view-raw", "v/file.wsp"
		case 2:
			c.Cmd.Kind, c.Cmd.Item, c.Cmd.Src = "sum", "v", "*.wsp"
		case 3:
			c.Cmd.Kind, c.Cmd.Src = "diff", "v/*.wsp"
		}
	}
	return c
}

var boundary32 = []uint64{0, 1, 2, 341, 1000, 4096, 0x40000000, 0x3fffffff, 0x20000000, 60, 0x7fffffff, 0x80000000, 0xffffffff, 0x15555556, 0x0aaaaaab, 0x15555555, 0x10000000, 0xfffffff4, 1000000, 0x04000000}
var boundary64 = []uint64{0, 1, 0x7fffffff, 0x80000000, 0xffffffff, 0x100000000, 1 << 62, 1 << 63, math.MaxUint64, 0x1555555555555556, 0x0aaaaaaaaaaaaaab}

// damages enumerates the damages applied to an object of the given size whose
// header is hdr bytes long: every truncation length (sampled beyond the first
// 600 bytes), every 32-bit field of the header x every boundary value, and
// seeded bit flips, extension and zeroing.
func damages(r *rand.Rand, size, hdr int64, wireOffsets []int64) []Damage {
	var out []Damage
	every := int64(20)
	if size > 12000 {
		every = size / 600 // at most ~600 sampled truncation lengths beyond the first 600
	}
	for n := int64(0); n < size; n++ {
		if n < 600 || n > size-4 || r.Int64N(every) == 0 {
			out = append(out, Damage{Kind: "truncate", At: n})
		}
	}
	for off := int64(0); off+4 <= hdr; off += 4 {
		for _, v := range boundary32 {
			out = append(out, Damage{Kind: "field", At: off, Val: v})
		}
	}
	for _, off := range wireOffsets {
		if off+8 <= size {
			for _, v := range boundary64 {
				out = append(out, Damage{Kind: "field", At: off, Val: v, Wide: true})
			}
		}
		if off+4 <= size {
			for _, v := range boundary32 {
				out = append(out, Damage{Kind: "field", At: off, Val: v})
			}
		}
	}
	for k := 0; k < 48 && size > 0; k++ {
		at := r.Int64N(size)
		if k%2 == 0 && hdr+12 <= size {
			at = r.Int64N(hdr + 12)
		}
		out = append(out, Damage{Kind: "flip", At: at, Bit: r.IntN(8)})
	}
	out = append(out, Damage{Kind: "extend", At: 1}, Damage{Kind: "extend", At: 4096}, Damage{Kind: "zero", At: 0}, Damage{Kind: "zero", At: hdr})
	return out
}

func applyDamage(b []byte, d Damage) []byte {
	out := append([]byte(nil), b...)
	switch d.Kind {
	case "truncate":
		if d.At >= 0 && d.At < int64(len(out)) {
			out = out[:d.At]
		}
	case "flip":
		if d.At >= 0 && d.At < int64(len(out)) {
			out[d.At] ^= 1 << uint(d.Bit&7)
		}
	case "field":
		if d.Wide {
			if d.At >= 0 && d.At+8 <= int64(len(out)) {
				binary.BigEndian.PutUint64(out[d.At:], d.Val)
			}
		} else if d.At >= 0 && d.At+4 <= int64(len(out)) {
			binary.BigEndian.PutUint32(out[d.At:], uint32(d.Val))
		}
		for _, a := range d.Also {
			if a.At >= 0 && a.At+4 <= int64(len(out)) {
				binary.BigEndian.PutUint32(out[a.At:], uint32(a.Val))
			}
		}
	case "extend":
		if d.At > 0 && d.At <= 1<<20 {
			out = append(out, make([]byte, d.At)...)
		}
	case "zero":
		for i := d.At; i >= 0 && i < int64(len(out)); i++ {
			out[i] = 0
		}
	case "forge":
		if f := forgeFile(d.Forge); f != nil {
			out = f
		}
	}
	return out
}

// guard runs one operation on damaged input and checks the three
// obligations: no panic, no hang, allocation in proportion to the input.
type c15Guard struct {
	e       *Env
	input   int64
	yields  *int64
	what    string
	damage  Damage
	failed  bool
	hangCap int64
}

const allocSlack = 64 << 10

func (g *c15Guard) run(op string, f func() error) (err error) {
	if g.failed {
		return nil
	}
	var m0, m1 runtime.MemStats
	runtime.ReadMemStats(&m0)
	*g.yields = 0
	var pan string
	err, pan = callSafely(f)
	hung := *g.yields > g.hangCap
	*g.yields = 0 // the budget applies to guarded operations only
	runtime.ReadMemStats(&m1)
	alloc := int64(m1.TotalAlloc - m0.TotalAlloc)
	bound := int64(allocSlack) + 64*g.input
	switch {
	case pan != "" && hung:
		g.failed = true
		g.e.Violate("C15.no-hang", "%s, %s: %s did not finish within %d statements", g.what, g.damage, op, g.hangCap)
	case pan != "":
		g.failed = true
		g.e.Violate("C15.no-panic", "%s, %s: %s panicked: %s", g.what, g.damage, op, trunc(pan, 200))
	case alloc > bound:
		g.failed = true
		g.e.Violate("C15.bounded-allocation", "%s, %s: %s allocated %d bytes for an input of %d bytes (bound: 64 KiB + 64 x input = %d)", g.what, g.damage, op, alloc, g.input, bound)
	}
	return err
}

func (c15Sim) Run(e *Env, ci interface{}) {
	c := ci.(*C15Case)
	if !c.Layout.Valid() || !c.File.Layout.Valid() || c.Clock0 < 946684800 || c.Clock0 > math.MaxUint32-3*400*86400 || len(c.File.Fills) > 12 || c.File.Rel == "" || c.File.Base != "src" {
		e.Skip("invalid-case")
		return
	}
	SetClock(e, c.Clock0)
	os.MkdirAll(filepath.Join(e.Dir, "src"), 0o755)
	os.MkdirAll(filepath.Join(e.Dir, "dst"), 0o755)
	if err := buildFile(e, c.File); err != nil {
		e.Skip("world-build-failed")
		return
	}
	base := readFile(c.File.path(e))
	if base == nil {
		e.Skip("world-build-failed")
		return
	}
	switch c.Mode {
	case "stored", "live":
		c15Stored(e, c, base)
	case "wire":
		c15Wire(e, c)
	default:
		e.Skip("invalid-case")
	}
}

func c15Stored(e *Env, c *C15Case, base []byte) {
	r := newRng(c.DSeed)
	hdr := int64(16 + 12*len(c.Layout.Archs))
	list := damages(r, int64(len(base)), hdr, nil)
	list = append(list, retentionWrapDamages(c.Layout)...)
	if c.Mode == "stored" {
		list = append(list, forgedHeaders(r)...)
	}
	list = append(list, baseWrapDamages(c.Layout, Now())...)
	if len(base) > 40000 && c.Only == nil {
		// every operation on such a file touches tens of thousands of slots:
		// keep the header-field grid and a seeded quarter of the rest
		var keep []Damage
		for _, d := range list {
			if d.Kind == "field" || r.IntN(4) == 0 {
				keep = append(keep, d)
			}
		}
		list = keep
	}
	if c.Only != nil {
		list = []Damage{*c.Only}
	}
	now := Now()
	var yields int64
	hook := func(site int) {
		yields++
		if site < len(e.Cover) {
			e.Cover[site]++
		}
		if yields > 3_000_000 {
			panic("wsim: statement budget exhausted")
		}
	}
	wt.VerifYield = hook
	p := filepath.Join(e.Dir, "dst", "damaged.wsp")
	for di, d := range list {
		dmg := applyDamage(base, d)
		g := &c15Guard{e: e, input: int64(len(dmg)), yields: &yields, damage: d, hangCap: 3_000_000}
		var db *wt.Whisper
		if c.Mode == "stored" {
			g.what = "file damaged before Open"
			os.WriteFile(p, dmg, 0o644)
			err := g.run("Open", func() error {
				var err error
				db, err = wt.Open(p, wt.WithoutFlock())
				return err
			})
			if g.failed {
				break
			}
			if err != nil || db == nil {
				e.Note("damaged-file-rejected-by-Open")
				e.Fault("F5." + d.Kind)
				db = nil
			} else {
				e.Probe("damaged-file-still-opens")
			}
		} else {
			// pages are read lazily: damage the bytes under an open handle
			g.what = "file damaged while a handle is open"
			if int64(len(base)) > g.input {
				// the handle was opened on the undamaged file: that is its input
				g.input = int64(len(base))
			}
			os.WriteFile(p, base, 0o644)
			var err error
			db, err = wt.Open(p, wt.WithoutFlock())
			if err != nil {
				e.Skip("world-unreadable")
				return
			}
			if d.Kind == "truncate" {
				os.Truncate(p, d.At)
			} else {
				f, ferr := os.OpenFile(p, os.O_WRONLY, 0)
				if ferr == nil {
					f.WriteAt(dmg, 0)
					f.Close()
				}
			}
			e.Probe("damaged-under-open-handle")
		}
		if db != nil {
			e.Fault("F5." + d.Kind)
		}
		n := 0
		if db != nil {
			n = len(db.ArchiveInfoList())
		}
		if n > 64 {
			n = 64
		}
		for id := -1; id < n && !g.failed && db != nil; id++ {
			g.run(fmt.Sprintf("FetchFromArchive(%d, 0, now)", id), func() error {
				_, err := db.FetchFromArchive(id, 0, wt.Timestamp(now), wt.Timestamp(now))
				return err
			})
			if id >= 0 {
				g.run(fmt.Sprintf("FetchFromArchive(%d, now-5, 2^32-1)", id), func() error {
					_, err := db.FetchFromArchive(id, wt.Timestamp(now-5), wt.Timestamp(math.MaxUint32), wt.Timestamp(now))
					return err
				})
				g.run(fmt.Sprintf("FetchFromArchive(%d, now-5, now)", id), func() error {
					_, err := db.FetchFromArchive(id, wt.Timestamp(now-5), wt.Timestamp(now), wt.Timestamp(now))
					return err
				})
				g.run(fmt.Sprintf("GetAllRawUnsortedPoints(%d)", id), func() error {
					_, err := db.GetAllRawUnsortedPoints(id)
					return err
				})
			}
		}
		if db != nil {
			g.run("UpdatePointForArchive(best)", func() error {
				return db.UpdatePointForArchive(wt.ArchiveIDBest, wt.Timestamp(now-1), 1.5, wt.Timestamp(now))
			})
			// single updates whose age lies around the real retention (a damaged
			// maxRetention field claims more, or less, than the archives cover)
			for _, age := range []int64{c.Layout.MaxRet() - 1, c.Layout.MaxRet() + 1, 2*c.Layout.MaxRet() + 1} {
				age := age
				if now-age <= 0 {
					continue
				}
				g.run(fmt.Sprintf("UpdatePointForArchive(best, now-%d)", age), func() error {
					return db.UpdatePointForArchive(wt.ArchiveIDBest, wt.Timestamp(now-age), 2.5, wt.Timestamp(now))
				})
			}
			g.run("UpdatePointsForArchive(best)", func() error {
				return db.UpdatePointsForArchive([]wt.Point{{Time: wt.Timestamp(now - 3), Value: 1}, {Time: wt.Timestamp(now - 2), Value: 2}, {Time: wt.Timestamp(now), Value: 3}}, wt.ArchiveIDBest, wt.Timestamp(now))
			})
			g.run("Sync", func() error { return db.Sync() })
			db.Close()
		}
		if g.failed {
			break
		}
		// the commands on the damaged file (a share of the damages; always in a replay)
		if c.Mode == "stored" && (di%8 == 0 || c.Only != nil) {
			os.WriteFile(p, dmg, 0o644) // undo what the updates above wrote
			for _, kind := range []string{"view", "view-raw", "copy", "diff"} {
				cm := Cmd{Kind: kind, SwapBases: true, Src: "damaged.wsp", Archive: -1, Create: c.Layout, TextOut: "none"}
				if kind == "copy" || kind == "diff" {
					cm.Dest = "copy-of-damaged.wsp"
				}
				r := newCliRunner(e, c.SchedSeed, 0, false)
				var m0, m1 runtime.MemStats
				runtime.ReadMemStats(&m0)
				res := r.run1(cm, "c15")
				runtime.ReadMemStats(&m1)
				r.close()
				e.OutSched = nil
				wt.VerifYield = hook
				if res.aborted {
					g.failed = true
					e.Violate("C15.no-hang", "file damaged before Open, %s: the %s command did not terminate", d, kind)
					break
				}
				if len(res.panics) > 0 {
					g.failed = true
					e.Violate("C15.no-panic", "file damaged before Open, %s: the %s command panicked: %s", d, kind, trunc(res.panics[0], 200))
					break
				}
				if alloc, bound := int64(m1.TotalAlloc-m0.TotalAlloc), int64(1<<20)+64*2*int64(len(dmg)); alloc > bound {
					g.failed = true
					e.Violate("C15.bounded-allocation", "file damaged before Open, %s: the %s command allocated %d bytes for a file of %d bytes (bound %d)", d, kind, alloc, len(dmg), bound)
					break
				}
				e.Note("command-on-damaged-file/" + kind)
			}
			os.Remove(filepath.Join(e.Dir, "src", "copy-of-damaged.wsp"))
			if g.failed {
				break
			}
		}
	}
	if e.Failed() && c.Only == nil {
		// make the replay file name the single damage that failed
		for _, d := range list {
			if e.Viol != nil && containsStr(e.Viol.Message, d.String()+":") {
				dd := d
				c.Only = &dd
				break
			}
		}
	}
}

func containsStr(s, sub string) bool {
	return len(sub) > 0 && len(s) >= len(sub) && (func() bool {
		for i := 0; i+len(sub) <= len(s); i++ {
			if s[i:i+len(sub)] == sub {
				return true
			}
		}
		return false
	})()
}

// c15Wire: the response body of the first request of the command is damaged.
func c15Wire(e *Env, c *C15Case) {
	switch c.Cmd.Kind {
	case "view", "view-raw", "sum", "diff", "sum-diff":
	default:
		e.Skip("invalid-case")
		return
	}
	// a destination twin for diff
	d := c.File
	d.Base = "dst"
	buildFile(e, d)
	serveBase = "src"
	if c.Cmd.DstRemote && !c.Cmd.SrcRemote {
		serveBase = "dst"
	}
	r := newCliRunner(e, c.SchedSeed, 0, true)
	serveBase = "src"
	defer r.close()
	// learn the size of the undamaged response
	var bodyLen int64 = -1
	r.srv.fault = func(req *http.Request) *wireFault {
		if req.URL.Path == "/files" || req.URL.Path == "/items" {
			return nil
		}
		return &wireFault{Kind: "measure", measure: &bodyLen}
	}
	var r0, r1 runtime.MemStats
	runtime.ReadMemStats(&r0)
	ref := r.run1(c.Cmd, "ref")
	runtime.ReadMemStats(&r1)
	refAlloc := int64(r1.TotalAlloc - r0.TotalAlloc) // what the whole command allocates when nothing is damaged
	if ref.aborted || len(ref.panics) > 0 || bodyLen < 0 {
		e.Skip("reference-request-failed")
		return
	}
	rng := newRng(c.DSeed)
	hdr := int64(16 + 12*len(c.Layout.Archs))
	// offsets of the series / point-list framing that follows the header
	wire := []int64{hdr, hdr + 4, hdr + 8}
	list := damages(rng, bodyLen, hdr, wire)
	// a server that lies about the length of its answer
	list = append(list, Damage{Kind: "other-question"})
	list = append(list, Damage{Kind: "lie-length", Val: 256 << 20}, Damage{Kind: "lie-length", Val: 1 << 62}, Damage{Kind: "lie-length", Val: uint64(bodyLen) + 1})
	if c.Only != nil {
		list = []Damage{*c.Only}
	}
	var m0, m1 runtime.MemStats
	for i, dm := range list {
		dm := dm
		fired := false
		r.srv.fault = func(req *http.Request) *wireFault {
			if req.URL.Path == "/files" || req.URL.Path == "/items" || fired {
				return nil
			}
			fired = true
			return &wireFault{Kind: "damage", damage: &dm}
		}
		runtime.ReadMemStats(&m0)
		res := r.run1(c.Cmd, fmt.Sprintf("w%d", i))
		runtime.ReadMemStats(&m1)
		if res.aborted {
			e.Violate("C15.no-hang", "response of %s damaged on the wire (%s): the client did not terminate;%s", c.Cmd.Kind, dm, r.s.DeadlockInfo)
			break
		}
		e.Fault("F7.wire-" + dm.Kind)
		if len(res.panics) > 0 {
			e.Violate("C15.no-panic", "response of %s damaged on the wire (%s): the client panicked: %s", c.Cmd.Kind, dm, trunc(res.panics[0], 200))
			break
		}
		alloc := int64(m1.TotalAlloc - m0.TotalAlloc)
		// the whole command (client, server, HTTP machinery, the local side of
		// a diff) is inside the measurement: allow what the undamaged command
		// allocated twice over, at least 4 MiB
		base := 2 * refAlloc
		if base < 4<<20 {
			base = 4 << 20
		}
		bound := base + 64*(bodyLen+4096)
		if alloc > bound {
			e.Violate("C15.bounded-allocation", "response of %s damaged on the wire (%s): decoding allocated %d bytes for a body of %d bytes (bound %d)", c.Cmd.Kind, dm, alloc, bodyLen, bound)
			break
		}
		if res.err != nil {
			e.Note("damaged-response-rejected")
		} else {
			e.Probe("damaged-response-decoded")
		}
	}
	if e.Failed() && c.Only == nil {
		for _, dmg := range list {
			if containsStr(e.Viol.Message, dmg.String()+")") {
				dd := dmg
				c.Only = &dd
				break
			}
		}
	}
}

// retentionWrapDamages: for every archive, the step is set so that
// step x points no longer fits the format's signed 32-bit durations (2^31 and
// just below), together with a base interval that is a multiple of that step -
// a header that is well-formed field by field and a slot that looks written.
func retentionWrapDamages(l Layout) []Damage {
	var out []Damage
	off := int64(16 + 12*len(l.Archs))
	for k, a := range l.Archs {
		stepOff := int64(16 + 12*k + 4)
		for _, total := range []int64{1 << 31, 1<<31 - 1, 1 << 32, 3 << 30} {
			step := (total + a.N - 1) / a.N
			if step <= 0 || step > 0x7fffffff {
				continue
			}
			for _, base := range []int64{step, 2 * step, 0} {
				if base > 0xffffffff {
					continue
				}
				d := Damage{Kind: "field", At: stepOff, Val: uint64(step), Also: []Damage{{Kind: "field", At: off, Val: uint64(base)}}}
				if k == len(l.Archs)-1 {
					// keep maxRetention consistent with the last archive
					d.Also = append(d.Also, Damage{Kind: "field", At: 4, Val: uint64(uint32(step * a.N))})
				}
				out = append(out, d)
			}
		}
		off += 12 * a.N
	}
	return out
}

// forgeFile builds a file that looks well formed field by field: contiguous
// offsets, the announced length, maxRetention taken (mod 2^32) from the last
// archive, and in every archive a base slot holding its own step as interval.
func forgeFile(spec []int64) []byte {
	if len(spec) < 2 || len(spec)%2 != 0 || len(spec) > 8 {
		return nil
	}
	n := len(spec) / 2
	total := int64(0)
	for i := 0; i < n; i++ {
		if spec[2*i] <= 0 || spec[2*i] > math.MaxUint32 || spec[2*i+1] <= 0 || spec[2*i+1] > 64 {
			return nil
		}
		total += spec[2*i+1]
	}
	hdr := 16 + 12*n
	b := make([]byte, int64(hdr)+12*total)
	binary.BigEndian.PutUint32(b[0:], 1)
	binary.BigEndian.PutUint32(b[4:], uint32(spec[2*(n-1)]*spec[2*(n-1)+1]))
	binary.BigEndian.PutUint32(b[8:], math.Float32bits(0.5))
	binary.BigEndian.PutUint32(b[12:], uint32(n))
	off := int64(hdr)
	for i := 0; i < n; i++ {
		binary.BigEndian.PutUint32(b[16+12*i:], uint32(off))
		binary.BigEndian.PutUint32(b[16+12*i+4:], uint32(spec[2*i]))
		binary.BigEndian.PutUint32(b[16+12*i+8:], uint32(spec[2*i+1]))
		binary.BigEndian.PutUint32(b[off:], uint32(spec[2*i]))
		binary.BigEndian.PutUint64(b[off+4:], math.Float64bits(1))
		off += 12 * spec[2*i+1]
	}
	return b
}

// forgedHeaders: two- and three-archive files whose steps divide and whose
// point counts suffice, with retentions (step x points) around 2^31 and 2^32
// in an archive that is not necessarily the last one. A seeded sixth of the
// table per object.
func forgedHeaders(r *rand.Rand) []Damage {
	var out []Damage
	for _, s0 := range []int64{1 << 27, 1 << 28, 1 << 29, 1 << 30, 3 << 28} {
		for _, n0 := range []int64{2, 3, 4, 5, 8, 9, 16, 17} {
			for _, m := range []int64{2, 4} {
				if n0 < m || s0*m > math.MaxUint32 {
					continue
				}
				for _, n1 := range []int64{1, 2, 3, 5} {
					if s0*n0 < 1<<31 && s0*m*n1 < 1<<31 {
						continue // an ordinary valid file
					}
					if r.IntN(6) == 0 {
						out = append(out, Damage{Kind: "forge", Forge: []int64{s0, n0, s0 * m, n1}})
					}
					if r.IntN(12) == 0 && s0*m*2 <= math.MaxUint32 && n1 >= 2 {
						out = append(out, Damage{Kind: "forge", Forge: []int64{s0, n0, s0 * m, n1, s0 * m * 2, 1}})
					}
				}
			}
		}
	}
	return out
}

// baseWrapDamages: the base interval of an archive is set to an aligned instant
// about 2^31 seconds away from the clock, a few steps to either side, so that
// the signed 32-bit distance from the base wraps for one end of an interval
// read or consolidated around "now" and not for the other.
func baseWrapDamages(l Layout, now int64) []Damage {
	var out []Damage
	off := int64(16 + 12*len(l.Archs))
	for k, a := range l.Archs {
		ratio := int64(4)
		if k+1 < len(l.Archs) {
			ratio = l.Archs[k+1].S / a.S
		}
		for _, j := range []int64{-ratio - 1, -ratio, -ratio / 2, -1, 0, 1, ratio / 2, ratio, ratio + 1} {
			t := now + 1<<31 + j*a.S
			t -= t % a.S
			out = append(out, Damage{Kind: "field", At: off, Val: uint64(uint32(t))})
		}
		off += 12 * a.N
	}
	return out
}
