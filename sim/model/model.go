// Package model holds the small executable reference models used as oracles
// by the whispertool simulator. They are written from the property statements
// and the Whisper format description (DESIGN.md appendix A), not from the
// implementation, and they never import it.
package model

import (
	"encoding/binary"
	"fmt"
	"math"
	"sort"
)

// Slot is one physical slot: stored interval and value.
type Slot struct {
	I int64
	V float64
}

// Raw is the raw state of an archive in physical order.
type Raw []Slot

// Arch is an archive: N slots of S seconds.
type Arch struct{ S, N int64 }

func (a Arch) R() int64 { return a.S * a.N }

// FloorMod is the mathematical modulo (result in [0,y) for y>0).
func FloorMod(x, y int64) int64 {
	m := x % y
	if m < 0 {
		m += y
	}
	return m
}

// Floor aligns t down to a multiple of s.
func Floor(t, s int64) int64 { return t - FloorMod(t, s) }

// Clone copies a raw state.
func (r Raw) Clone() Raw { return append(Raw(nil), r...) }

// Index is the physical index of aligned interval I given the base interval.
func Index(a Arch, base, I int64) int64 {
	return FloorMod((I-base)/a.S, a.N)
}

// Place is A.1: writes is the time-ordered list of aligned points.
func Place(a Arch, raw Raw, writes []Slot) Raw {
	out := raw.Clone()
	if len(writes) == 0 {
		return out
	}
	base := out[0].I
	if base == 0 {
		base = writes[0].I
	}
	for _, w := range writes {
		out[Index(a, base, w.I)] = w
	}
	return out
}

// Project is A.2: the value a fetch must report for aligned instant T.
func Project(a Arch, raw Raw, T int64) float64 {
	base := raw[0].I
	if base == 0 {
		return math.NaN()
	}
	p := raw[Index(a, base, T)]
	if p.I == T {
		return p.V
	}
	return math.NaN()
}

// SameValue compares two float64 bitwise, all NaNs being equal.
func SameValue(x, y float64) bool {
	if math.IsNaN(x) && math.IsNaN(y) {
		return true
	}
	return math.Float64bits(x) == math.Float64bits(y)
}

// ---------------------------------------------------------------------------
// A.3 shape

// ShapeKind classifies the outcome of a fetch.
type ShapeKind int

const (
	ShapeError ShapeKind = iota
	ShapeNone
	ShapeSeries
)

func (k ShapeKind) String() string { return [...]string{"error", "no-series", "series"}[k] }

// ShapeResult is the expected shape of a fetch.
type ShapeResult struct {
	Kind    ShapeKind
	Archive int
	From    int64
	Until   int64
	Step    int64
	Count   int64
}

// Shape is A.3. id == -1 means "best".
func Shape(archs []Arch, id int, from, until, now int64) ShapeResult {
	if from > until {
		return ShapeResult{Kind: ShapeError}
	}
	if id != -1 && (id < 0 || id >= len(archs)) {
		return ShapeResult{Kind: ShapeError}
	}
	if id == -1 {
		id = len(archs) - 1
		for i, a := range archs {
			if a.R() >= now-from {
				id = i
				break
			}
		}
	}
	a := archs[id]
	if from > now || until < now-a.R() {
		return ShapeResult{Kind: ShapeNone, Archive: id}
	}
	if from < now-a.R() {
		from = now - a.R()
	}
	if until > now {
		until = now
	}
	F := Floor(from, a.S) + a.S
	U := Floor(until, a.S) + a.S
	if F == U {
		U += a.S
	}
	return ShapeResult{Kind: ShapeSeries, Archive: id, From: F, Until: U, Step: a.S, Count: (U - F) / a.S}
}

// ---------------------------------------------------------------------------
// A.4 route

// Pt is a point as supplied by a caller.
type Pt struct {
	T int64
	V float64
}

// SingleAccepted: accepted iff now-Rmax < t <= now.
func SingleAccepted(archs []Arch, t, now int64) bool {
	return now-archs[len(archs)-1].R() < t && t <= now
}

// SingleTarget is the finest archive whose retention is at least the age.
func SingleTarget(archs []Arch, t, now int64) int {
	for i, a := range archs {
		if a.R() >= now-t {
			return i
		}
	}
	return len(archs) - 1
}

// RouteBatch partitions a batch (id == -1: best; otherwise the named archive).
// It returns, per archive, the time-ordered (stable) share of points; dropped
// points are returned separately.
func RouteBatch(archs []Arch, pts []Pt, id int, now int64) (shares [][]Pt, dropped []Pt) {
	sorted := append([]Pt(nil), pts...)
	sort.SliceStable(sorted, func(i, j int) bool { return sorted[i].T < sorted[j].T })
	shares = make([][]Pt, len(archs))
	for _, p := range sorted {
		age := now - p.T
		target := -1
		if id == -1 {
			for i, a := range archs {
				if age < a.R() {
					target = i
					break
				}
			}
		} else if age < archs[id].R() {
			target = id
		}
		if target < 0 {
			dropped = append(dropped, p)
			continue
		}
		shares[target] = append(shares[target], p)
	}
	return shares, dropped
}

// Align turns a time-ordered share into aligned writes (duplicates kept, in
// order; the last entry per slot wins when placed).
func Align(a Arch, share []Pt) []Slot {
	out := make([]Slot, len(share))
	for i, p := range share {
		out[i] = Slot{I: Floor(p.T, a.S), V: p.V}
	}
	return out
}

// ---------------------------------------------------------------------------
// A.5 aggregation and propagation

// Aggregate applies method (1 average, 2 sum, 3 last, 4 max, 5 min, 6 first)
// to the known values in time order. known must be non-empty.
func Aggregate(method int, known []float64) float64 {
	switch method {
	case 1:
		s := 0.0
		for _, v := range known {
			s += v
		}
		return s / float64(len(known))
	case 2:
		s := 0.0
		for _, v := range known {
			s += v
		}
		return s
	case 3:
		return known[len(known)-1]
	case 4:
		m := known[0]
		for _, v := range known {
			if v > m {
				m = v
			}
		}
		return m
	case 5:
		m := known[0]
		for _, v := range known {
			if v < m {
				m = v
			}
		}
		return m
	case 6:
		return known[0]
	}
	panic("bad method")
}

// XffVerdict compares the known fraction with xFilesFactor: +1 store, -1 skip.
//
// The fraction is computed in float32, the precision of the header field: that
// is what "xFilesFactor 0.1 with 1 of 10 slots known" means to a user (stored)
// and what both Whisper implementations do (python-whisper's struct float,
// go-whisper's float32 division). An exact rational comparison would skip at
// such a boundary because float32(0.1) is slightly larger than 1/10; Boundary
// reports whether the two readings differ, so that runs can count how often
// the boundary was exercised.
func XffVerdict(known, total int64, xff float64) int {
	if float32(known)/float32(total) >= float32(xff) {
		return 1
	}
	return -1
}

// XffBoundary reports whether the exact rational comparison known/total >= xff
// and the float32 comparison disagree.
func XffBoundary(known, total int64, xff float64) bool {
	exact := float64(known) >= xff*float64(total)
	f32 := float32(known)/float32(total) >= float32(xff)
	return exact != f32
}

// PropStep is the model's verdict for one touched coarse interval.
type PropStep struct {
	T       int64
	Known   int
	Total   int
	Verdict int // +1 store, -1 skip
	Value   float64
}

// PropagatePlan computes, for each touched coarse interval, whether it must be
// stored and with which value, from the finer archive's post-write raw state.
func PropagatePlan(fine Arch, fineRaw Raw, coarse Arch, touched []int64, method int, xff float64) []PropStep {
	var out []PropStep
	ratio := coarse.S / fine.S
	for _, T := range touched {
		var known []float64
		base := fineRaw[0].I
		for k := int64(0); k < ratio; k++ {
			I := T + k*fine.S
			if base == 0 {
				continue
			}
			p := fineRaw[Index(fine, base, I)]
			if p.I == I {
				known = append(known, p.V)
			}
		}
		st := PropStep{T: T, Known: len(known), Total: int(ratio)}
		if len(known) == 0 {
			st.Verdict = -1
		} else {
			st.Verdict = XffVerdict(int64(len(known)), ratio, xff)
			st.Value = Aggregate(method, known)
		}
		out = append(out, st)
	}
	return out
}

// DedupeConsecutive removes consecutive duplicates.
func DedupeConsecutive(xs []int64) []int64 {
	var out []int64
	for _, x := range xs {
		if len(out) > 0 && out[len(out)-1] == x {
			continue
		}
		out = append(out, x)
	}
	return out
}

// ---------------------------------------------------------------------------
// A.6 classic Whisper format parser

// File is a parsed Whisper file.
type File struct {
	Method   uint32
	MaxRet   uint32
	XffBits  uint32
	Count    uint32
	Offsets  []uint32
	Archs    []Arch
	Archives []Raw
}

// ParseFile decodes classic Whisper bytes and checks the structural rules of
// the format; it returns the first rule violated as an error.
func ParseFile(b []byte) (*File, error) {
	if len(b) < 16 {
		return nil, fmt.Errorf("file shorter than the 16-byte metadata")
	}
	f := &File{
		Method:  binary.BigEndian.Uint32(b[0:]),
		MaxRet:  binary.BigEndian.Uint32(b[4:]),
		XffBits: binary.BigEndian.Uint32(b[8:]),
		Count:   binary.BigEndian.Uint32(b[12:]),
	}
	if f.Count == 0 || f.Count > 64 {
		return nil, fmt.Errorf("archive count %d", f.Count)
	}
	hdr := 16 + 12*int(f.Count)
	if len(b) < hdr {
		return nil, fmt.Errorf("file shorter than its header")
	}
	want := uint32(hdr)
	total := int64(0)
	for k := 0; k < int(f.Count); k++ {
		o := 16 + 12*k
		off := binary.BigEndian.Uint32(b[o:])
		spp := binary.BigEndian.Uint32(b[o+4:])
		pts := binary.BigEndian.Uint32(b[o+8:])
		if off != want {
			return nil, fmt.Errorf("archive %d: offset %d, want %d (archives must be contiguous after the header)", k, off, want)
		}
		if spp == 0 || pts == 0 {
			return nil, fmt.Errorf("archive %d: zero step or point count", k)
		}
		f.Offsets = append(f.Offsets, off)
		f.Archs = append(f.Archs, Arch{S: int64(spp), N: int64(pts)})
		want += 12 * pts
		total += int64(pts)
	}
	if int64(len(b)) != int64(hdr)+12*total {
		return nil, fmt.Errorf("file length %d, want header %d + 12*%d", len(b), hdr, total)
	}
	last := f.Archs[len(f.Archs)-1]
	if int64(f.MaxRet) != last.R() {
		return nil, fmt.Errorf("maxRetention %d, want %d", f.MaxRet, last.R())
	}
	for k, a := range f.Archs {
		raw := make(Raw, a.N)
		o := int(f.Offsets[k])
		for i := int64(0); i < a.N; i++ {
			raw[i] = Slot{
				I: int64(binary.BigEndian.Uint32(b[o:])),
				V: math.Float64frombits(binary.BigEndian.Uint64(b[o+4:])),
			}
			o += 12
		}
		base := raw[0].I
		for i, s := range raw {
			if s.I == 0 {
				continue
			}
			if base == 0 {
				return nil, fmt.Errorf("archive %d: slot %d is written but the base slot is empty", k, i)
			}
			if s.I%a.S != 0 {
				return nil, fmt.Errorf("archive %d slot %d: interval %d is not a multiple of the step %d", k, i, s.I, a.S)
			}
			if Index(a, base, s.I) != int64(i) {
				return nil, fmt.Errorf("archive %d slot %d: interval %d belongs to index %d relative to base %d", k, i, s.I, Index(a, base, s.I), base)
			}
		}
		f.Archives = append(f.Archives, raw)
	}
	return f, nil
}
