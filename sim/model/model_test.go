package model

import (
	"encoding/binary"
	"math"
	"testing"
)

// Hand-computed cases from the Whisper format description; the models are the
// oracles of the simulator, so they get their own small tests.

func TestShape(t *testing.T) {
	archs := []Arch{{1, 10}, {5, 12}} // 1s:10s, 5s:60s
	now := int64(1000)
	cases := []struct {
		id              int
		from, until     int64
		kind            ShapeKind
		arch            int
		f, u, step, cnt int64
	}{
		{0, 995, 1000, ShapeSeries, 0, 996, 1001, 1, 5},
		{0, 900, 1000, ShapeSeries, 0, 991, 1001, 1, 10}, // clamped to now-10
		{0, 1001, 1002, ShapeNone, 0, 0, 0, 0, 0},        // wholly in the future
		{0, 900, 989, ShapeNone, 0, 0, 0, 0, 0},          // wholly before the retention
		{0, 900, 990, ShapeSeries, 0, 991, 992, 1, 1},    // until == oldest: degenerate, extended
		{1, 998, 999, ShapeSeries, 1, 1000, 1005, 5, 1},  // sub-step window, extended by one step
		{1, 940, 1000, ShapeSeries, 1, 945, 1005, 5, 12}, // whole retention
		{-1, 995, 1000, ShapeSeries, 0, 996, 1001, 1, 5}, // best: age 5 <= 10
		{-1, 989, 1000, ShapeSeries, 1, 990, 1005, 5, 3}, // best: age 11 > 10 -> archive 1
		{-1, 0, 1000, ShapeSeries, 1, 945, 1005, 5, 12},  // from = 0: coarsest
		{0, 10, 5, ShapeError, 0, 0, 0, 0, 0},            // from > until
		{2, 990, 1000, ShapeError, 0, 0, 0, 0, 0},        // id out of range
		{-2, 990, 1000, ShapeError, 0, 0, 0, 0, 0},
	}
	for i, c := range cases {
		got := Shape(archs, c.id, c.from, c.until, now)
		if got.Kind != c.kind {
			t.Errorf("case %d: kind %v, want %v", i, got.Kind, c.kind)
			continue
		}
		if c.kind == ShapeSeries && (got.Archive != c.arch || got.From != c.f || got.Until != c.u || got.Step != c.step || got.Count != c.cnt) {
			t.Errorf("case %d: %+v", i, got)
		}
	}
}

func TestPlaceProject(t *testing.T) {
	a := Arch{S: 10, N: 3}
	raw := make(Raw, 3)
	// first write sets the base interval and goes to slot 0
	raw = Place(a, raw, []Slot{{I: 100, V: 1}})
	if raw[0] != (Slot{100, 1}) {
		t.Fatalf("%v", raw)
	}
	// 110 -> slot 1, 90 (before the base) -> slot 2, 130 -> slot 0 (next lap)
	raw = Place(a, raw, []Slot{{I: 90, V: 9}, {I: 110, V: 2}, {I: 130, V: 3}})
	want := Raw{{130, 3}, {110, 2}, {90, 9}}
	for i := range want {
		if raw[i] != want[i] {
			t.Fatalf("slot %d: %v want %v", i, raw[i], want[i])
		}
	}
	if v := Project(a, raw, 110); v != 2 {
		t.Errorf("project 110 = %v", v)
	}
	if v := Project(a, raw, 100); !math.IsNaN(v) { // slot 0 holds lap 130 now
		t.Errorf("project 100 = %v, want NaN (stale lap)", v)
	}
	if v := Project(a, Raw{{0, 0}, {0, 0}, {0, 0}}, 100); !math.IsNaN(v) {
		t.Errorf("never written must project NaN")
	}
}

func TestRoute(t *testing.T) {
	archs := []Arch{{1, 10}, {5, 12}}
	now := int64(1000)
	if !SingleAccepted(archs, 941, now) || SingleAccepted(archs, 940, now) || SingleAccepted(archs, 1001, now) || !SingleAccepted(archs, 1000, now) {
		t.Error("single acceptance boundaries")
	}
	if SingleTarget(archs, 990, now) != 0 || SingleTarget(archs, 989, now) != 1 {
		t.Error("single target: retention >= age")
	}
	shares, dropped := RouteBatch(archs, []Pt{{990, 1}, {991, 2}, {940, 3}, {941, 4}, {991, 5}}, -1, now)
	// batch rule: retention > age: 990 (age 10) -> archive 1, 991 -> archive 0, 940 (age 60) dropped, 941 -> archive 1
	if len(shares[0]) != 2 || shares[0][0].V != 2 || shares[0][1].V != 5 {
		t.Errorf("archive 0 share %v", shares[0])
	}
	if len(shares[1]) != 2 || shares[1][0].T != 941 || shares[1][1].T != 990 {
		t.Errorf("archive 1 share %v", shares[1])
	}
	if len(dropped) != 1 || dropped[0].T != 940 {
		t.Errorf("dropped %v", dropped)
	}
	named, _ := RouteBatch(archs, []Pt{{990, 1}, {991, 2}}, 0, now)
	if len(named[0]) != 1 || named[0][0].T != 991 {
		t.Errorf("named archive share %v", named[0])
	}
}

func TestPropagate(t *testing.T) {
	fine, coarse := Arch{1, 10}, Arch{5, 12}
	raw := make(Raw, 10)
	raw = Place(fine, raw, []Slot{{100, 1}, {101, 3}, {103, 8}})
	plan := PropagatePlan(fine, raw, coarse, []int64{100, 105}, 1, 0.5)
	if plan[0].Known != 3 || plan[0].Verdict != 1 || plan[0].Value != 4 {
		t.Errorf("average of 1,3,8 with 3/5 known >= 0.5: %+v", plan[0])
	}
	if plan[1].Known != 0 || plan[1].Verdict != -1 {
		t.Errorf("no known value must be skipped: %+v", plan[1])
	}
	if PropagatePlan(fine, raw, coarse, []int64{100}, 1, 0.8)[0].Verdict != -1 {
		t.Error("3/5 < 0.8 must be skipped")
	}
	for m, want := range map[int]float64{2: 12, 3: 8, 4: 8, 5: 1, 6: 1} {
		if got := PropagatePlan(fine, raw, coarse, []int64{100}, m, 0)[0].Value; got != want {
			t.Errorf("method %d: %v want %v", m, got, want)
		}
	}
	// float32 boundary: 1 of 10 known, xff float32(0.1): stored
	if XffVerdict(1, 10, float64(float32(0.1))) != 1 || !XffBoundary(1, 10, float64(float32(0.1))) {
		t.Error("xff boundary semantics")
	}
}

func TestParseFile(t *testing.T) {
	// 1s:2s,2s:4s  -> header 16+24 = 40, archives 24+24
	b := make([]byte, 40+24+24)
	binary.BigEndian.PutUint32(b[0:], 2)
	binary.BigEndian.PutUint32(b[4:], 4)
	binary.BigEndian.PutUint32(b[8:], math.Float32bits(0.5))
	binary.BigEndian.PutUint32(b[12:], 2)
	binary.BigEndian.PutUint32(b[16:], 40)
	binary.BigEndian.PutUint32(b[20:], 1)
	binary.BigEndian.PutUint32(b[24:], 2)
	binary.BigEndian.PutUint32(b[28:], 64)
	binary.BigEndian.PutUint32(b[32:], 2)
	binary.BigEndian.PutUint32(b[36:], 2)
	binary.BigEndian.PutUint32(b[40:], 100) // base 100 in slot 0
	binary.BigEndian.PutUint64(b[44:], math.Float64bits(7))
	f, err := ParseFile(b)
	if err != nil || f.Archives[0][0] != (Slot{100, 7}) || f.Archs[1] != (Arch{2, 2}) {
		t.Fatalf("%v %+v", err, f)
	}
	binary.BigEndian.PutUint32(b[52:], 102) // slot 1 must hold 101 (mod 2)
	if _, err := ParseFile(b); err == nil {
		t.Error("interval in the wrong slot must be rejected")
	}
	binary.BigEndian.PutUint32(b[52:], 0)
	if _, err := ParseFile(b[:len(b)-1]); err == nil {
		t.Error("wrong length must be rejected")
	}
	binary.BigEndian.PutUint32(b[28:], 60)
	if _, err := ParseFile(b); err == nil {
		t.Error("non-contiguous offset must be rejected")
	}
}
